// Package vrand replaces crypto/rand inside p2psync/manager.go (overlay import rewrite):
// the sync manager's "random" peer selection becomes a choice the explorer owns.
package vrand

import (
	"io"
	"math/big"
)

// Reader is unused by the shim but keeps the call sites compiling.
var Reader io.Reader

// Pick decides the answer to Int(max); the default is 0.
var Pick = func(n int) int { return 0 }

// Calls counts how often a choice among more than one candidate was asked for.
var Calls int

// Int mirrors crypto/rand.Int.
func Int(_ io.Reader, max *big.Int) (*big.Int, error) {
	n := int(max.Int64())
	if n > 1 {
		Calls++
	}
	k := Pick(n)
	if k < 0 || k >= n {
		k = 0
	}
	return big.NewInt(int64(k)), nil
}
