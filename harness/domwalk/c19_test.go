package domwalk

import (
	"fmt"
	"math/big"
	"math/bits"
	"sort"

	"github.com/bitcoin-sv/block-headers-service/domains"
	"github.com/bitcoin-sv/block-headers-service/verifh/core"
)

func init() { props["C19"] = runC19 }

var pow256 [256]*big.Int
var two256 = new(big.Int).Exp(big.NewInt(2), big.NewInt(256), nil)

func init() {
	for k := range pow256 {
		pow256[k] = new(big.Int).Exp(big.NewInt(256), big.NewInt(int64(k)), nil)
	}
}

// refTarget: sign x mantissa x 256^(exponent-3), truncating below exponent 3.
func refTarget(c uint32, out *big.Int) *big.Int {
	mant := int64(c & 0x007fffff)
	e := int(c >> 24)
	out.SetInt64(mant)
	if e >= 3 {
		out.Mul(out, pow256[e-3])
	} else {
		out.Quo(out, pow256[3-e])
	}
	if c&0x00800000 != 0 {
		out.Neg(out)
	}
	return out
}

func refWork(t *big.Int, out *big.Int) *big.Int {
	if t.Sign() <= 0 {
		return out.SetInt64(0)
	}
	out.Add(t, big.NewInt(1))
	return out.Quo(two256, out)
}

func runC19(env core.Env, rep *core.Report) {
	rep.Rule = "one evaluation = one 32-bit input (a compact difficulty encoding, or an n for the integer logarithm) compared with the independent reference; non-trivial = the encoding has exponent < 3, the sign bit, a zero mantissa or an exponent above 32 (target beyond 256 bits), or n is a power of two or adjacent to one; distinct by input value"
	var t, w big.Int
	check := func(c uint32) {
		rep.Evaluations++
		e := c >> 24
		if e < 3 || e > 32 || c&0x00800000 != 0 || c&0x007fffff == 0 {
			rep.DistinctNontrivial++
		}
		refTarget(c, &t)
		got := domains.CompactToBig(c)
		if got.Cmp(&t) != 0 {
			rep.Violate(core.Violation{Kind: "target", What: fmt.Sprintf("CompactToBig(0x%08x)", c), Replay: map[string]any{"engine": "domwalk", "bits": c}, Expected: t.String(), Observed: got.String()})
			return
		}
		refWork(&t, &w)
		gw := domains.CalculateWork(c).BigInt()
		if gw.Cmp(&w) != 0 {
			kind := "work"
			if t.Sign() <= 0 {
				kind = "work.nonpositive_target"
			}
			rep.Violate(core.Violation{Kind: kind, What: fmt.Sprintf("CalculateWork(0x%08x)", c), Replay: map[string]any{"engine": "domwalk", "bits": c}, Expected: w.String(), Observed: gw.String()})
		}
	}
	checkLog := func(n uint32) {
		rep.Evaluations++
		if n&(n-1) == 0 || (n+1)&n == 0 || (n-1)&(n-2) == 0 {
			rep.DistinctNontrivial++
		}
		want := uint8(bits.Len32(n) - 1)
		if got := domains.FastLog2Floor(n); got != want {
			rep.Violate(core.Violation{Kind: "log2", What: fmt.Sprintf("FastLog2Floor(%d)", n), Replay: map[string]any{"engine": "domwalk", "n": n}, Expected: want, Observed: got})
		}
	}
	if env.Tier == "thorough" {
		rep.Bound = "[all 2^32 compact encodings for CompactToBig and CalculateWork; all n in 1..2^32-1 for FastLog2Floor]"
		n := uint64(env.ShardN)
		if n == 0 {
			n = 1
		}
		lo := uint64(env.ShardI) * (1 << 32) / n
		hi := (uint64(env.ShardI) + 1) * (1 << 32) / n
		for c := lo; c < hi; c++ {
			if c&0xfffff == 0 && rep.Expired() {
				rep.Extra["stopped_at"] = c
				return
			}
			check(uint32(c))
			if c != 0 {
				checkLog(uint32(c))
			}
		}
		rep.Samples = append(rep.Samples, map[string]any{"range": fmt.Sprintf("0x%08x..0x%08x", lo, hi-1)})
		return
	}
	rep.Bound = "[all 256 exponents x both signs x mantissa lattice {0,1,2,0x7f,0x80,0xff,0x100,0xffff,0x10000,0x7ffffe,0x7fffff} u {2^k, 2^k+-1}; all n < 2^20 and all n = 2^k, 2^k+-1] + monotonicity on the sorted distinct targets"
	mset := map[uint32]bool{}
	for _, m := range []uint32{0, 1, 2, 0x7f, 0x80, 0xff, 0x100, 0xffff, 0x10000, 0x7ffffe, 0x7fffff} {
		mset[m] = true
	}
	for k := 0; k < 23; k++ {
		p := uint32(1) << k
		mset[p], mset[p-1], mset[(p+1)&0x7fffff] = true, true, true
	}
	type tw struct{ t, w *big.Int }
	var all []tw
	idx := 0
	for e := uint32(0); e < 256; e++ {
		for _, sign := range []uint32{0, 0x00800000} {
			for m := range mset {
				idx++
				c := e<<24 | sign | m
				if !env.Mine(idx) {
					continue
				}
				check(c)
				tt := domains.CompactToBig(c)
				all = append(all, tw{tt, domains.CalculateWork(c).BigInt()})
				rep.Sample(func() any {
					return map[string]any{"bits": fmt.Sprintf("0x%08x", c), "target": tt.String(), "work": domains.CalculateWork(c).BigInt().String()}
				})
			}
		}
	}
	// monotonicity: work is non-increasing in the target
	sort.Slice(all, func(i, j int) bool { return all[i].t.Cmp(all[j].t) < 0 })
	for i := 1; i < len(all); i++ {
		if all[i].t.Sign() > 0 && all[i-1].t.Sign() > 0 && all[i].w.Cmp(all[i-1].w) > 0 {
			rep.Violate(core.Violation{Kind: "monotonic", What: "work increases with the target", Replay: map[string]any{"engine": "domwalk", "targets": []string{all[i-1].t.String(), all[i].t.String()}}, Expected: "non-increasing", Observed: []string{all[i-1].w.String(), all[i].w.String()}})
		}
	}
	if env.ShardI == 0 {
		for n := uint32(1); n < 1<<20; n++ {
			checkLog(n)
		}
		for k := 0; k < 32; k++ {
			p := uint32(1) << k
			for _, n := range []uint32{p, p - 1, p + 1} {
				if n != 0 {
					checkLog(n)
				}
			}
		}
		checkLog(0xffffffff)
	}
	rep.States = rep.Evaluations
	rep.Transitions = rep.Evaluations
}
