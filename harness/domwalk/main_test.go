// Package domwalk is engine E6: complete enumeration of finite input domains against
// independently written references (C14 wire codec, C19 difficulty arithmetic, C20
// configuration precedence).
package domwalk

import (
	"os"
	"testing"

	"github.com/bitcoin-sv/block-headers-service/verifh/core"
)

func TestMain(m *testing.M) {
	code := m.Run()
	core.Cleanup()
	os.Exit(code)
}

var props = map[string]func(env core.Env, rep *core.Report){}

func TestCheck(t *testing.T) {
	env := core.GetEnv()
	f := props[env.Prop]
	if f == nil {
		t.Fatalf("unknown VERIF_PROP %q", env.Prop)
	}
	rep := core.NewReport(env, "domwalk")
	f(env, rep)
	rep.Write(env.Out)
}
