package domwalk

import (
	"fmt"
	"os"
	"path/filepath"
	"reflect"
	"strings"
	"time"

	"github.com/bitcoin-sv/block-headers-service/cli"
	"github.com/bitcoin-sv/block-headers-service/config"
	"github.com/bitcoin-sv/block-headers-service/verifh/core"
	"github.com/spf13/viper"
)

func init() { props["C20"] = runC20 }

type leaf struct {
	Key  string
	Path []int // field index path inside AppConfig (through pointers)
	Type reflect.Type
}

// leaves enumerates every leaf key of config.AppConfig by reflection over mapstructure tags.
func leaves() []leaf {
	var out []leaf
	var walk func(t reflect.Type, prefix string, path []int)
	walk = func(t reflect.Type, prefix string, path []int) {
		if t.Kind() == reflect.Ptr {
			t = t.Elem()
		}
		for i := 0; i < t.NumField(); i++ {
			f := t.Field(i)
			tag := f.Tag.Get("mapstructure")
			if tag == "" || tag == "-" {
				continue
			}
			key := tag
			if prefix != "" {
				key = prefix + "." + tag
			}
			ft := f.Type
			if ft.Kind() == reflect.Ptr {
				ft = ft.Elem()
			}
			p := append(append([]int{}, path...), i)
			if ft.Kind() == reflect.Struct {
				walk(ft, key, p)
				continue
			}
			out = append(out, leaf{key, p, ft})
		}
	}
	walk(reflect.TypeOf(config.AppConfig{}), "", nil)
	return out
}

func get(cfg *config.AppConfig, l leaf) reflect.Value {
	v := reflect.ValueOf(cfg).Elem()
	for _, i := range l.Path {
		v = v.Field(i)
		if v.Kind() == reflect.Ptr {
			v = v.Elem()
		}
	}
	return v
}

// restricted value domains: keys whose values are interpreted while loading
var domainOf = map[string][]string{
	"logging.level":      {"info", "warn"},
	"logging.format":     {"json", "console"},
	"db.engine":          {"postgres", "sqlite"},
	"p2p.chain_net_type": {"testnet", "regtest"},
}

// twoValues returns two distinct textual values of the leaf's type, the first one different
// from the default.
func twoValues(l leaf, def reflect.Value) (string, string) {
	if d, ok := domainOf[l.Key]; ok {
		a, b := d[0], d[1]
		if fmt.Sprint(def.Interface()) == a {
			a, b = b, a
		}
		return a, b
	}
	switch {
	case l.Type == reflect.TypeOf(time.Duration(0)):
		return "1h5m0s", "7m3s"
	case l.Type.Kind() == reflect.Bool:
		return fmt.Sprint(!def.Bool()), fmt.Sprint(def.Bool())
	case l.Type.Kind() == reflect.String:
		return "verif-" + strings.ReplaceAll(l.Key, ".", "-") + "-A", "verif-" + strings.ReplaceAll(l.Key, ".", "-") + "-B"
	case l.Type.Kind() == reflect.Uint16:
		return fmt.Sprint(def.Uint() + 1), fmt.Sprint(def.Uint() + 2)
	default:
		return fmt.Sprint(def.Int() + 1), fmt.Sprint(def.Int() + 2)
	}
}

func render(v reflect.Value) string {
	if d, ok := v.Interface().(time.Duration); ok {
		return d.String()
	}
	return fmt.Sprint(v.Interface())
}

func yamlFor(key, val string, quote bool) string {
	parts := strings.Split(key, ".")
	var sb strings.Builder
	for i, p := range parts {
		sb.WriteString(strings.Repeat("  ", i) + p + ":")
		if i == len(parts)-1 {
			if quote && strings.ContainsAny(val, "$\\\"") {
				// YAML single-quoted scalar: everything literal, a quote doubled
				sb.WriteString(" '" + strings.ReplaceAll(val, "'", "''") + "'\n")
			} else if quote {
				sb.WriteString(" \"" + val + "\"\n")
			} else {
				sb.WriteString(" " + val + "\n")
			}
		} else {
			sb.WriteString("\n")
		}
	}
	return sb.String()
}

func envName(key string) string {
	return "BHS_" + strings.ToUpper(strings.ReplaceAll(key, ".", "_"))
}

// loadOnce resolves the configuration the way cmd/main.go does: SetDefaults, LoadFlags with
// -C <file>, Load.
func loadOnce(file string, env map[string]string) (*config.AppConfig, error) {
	viper.Reset()
	for _, e := range os.Environ() {
		if strings.HasPrefix(e, "BHS_") {
			_ = os.Unsetenv(strings.SplitN(e, "=", 2)[0])
		}
	}
	for k, v := range env {
		_ = os.Setenv(k, v)
	}
	defer func() {
		for k := range env {
			_ = os.Unsetenv(k)
		}
	}()
	if err := config.SetDefaults("verif", core.Quiet()); err != nil {
		return nil, err
	}
	def := config.GetDefaultAppConfig()
	oldArgs := os.Args
	defer func() { os.Args = oldArgs }()
	if file != "" {
		os.Args = []string{"bhs", "-C", file}
	} else {
		os.Args = []string{"bhs"}
	}
	if err := cli.LoadFlags(def); err != nil {
		return nil, err
	}
	cfg, _, err := config.Load(def)
	return cfg, err
}

func runC20(env core.Env, rep *core.Report) {
	rep.Rule = "one evaluation = one configuration resolution (one leaf key x one subset of {env, file} x value assignment) through SetDefaults + LoadFlags(-C file) + Load, with every other leaf key observed too, or one database section through Validate; non-trivial = at least one source sets the key / the section is invalid; distinct by (key, sources, values)"
	ls := leaves()
	rep.Bound = fmt.Sprintf("[every leaf key of config.AppConfig (%d by reflection) x {none, env, file, env+file, env+file swapped; for free-form string keys also a value full of $, ${..}, %, {{..}}, # and backslashes from the file and from the environment}] [database sections: engine{sqlite,postgres,'',mysql} x sqlite path{'',set} x 2^4 postgres field presence x prepared_db x prepared file{exists,missing,''}]", len(ls))
	dir := core.Scratch()
	// run in an empty directory so that no ./config.yaml is picked up
	_ = os.Chdir(dir)
	if len(ls) < 30 {
		rep.HarnessError(fmt.Sprintf("only %d leaf keys found", len(ls)))
	}
	// the documented default of p2p.user_agent_version is the application version, which
	// SetDefaults installs: take the defaults after it ran once
	_ = config.SetDefaults("verif", core.Quiet())
	defaults := config.GetDefaultAppConfig()
	idx := 0
	for _, l := range ls {
		idx++
		if !env.Mine(idx) {
			continue
		}
		dv := get(defaults, l)
		a, b := twoValues(l, dv)
		quote := l.Type.Kind() == reflect.String || l.Type == reflect.TypeOf(time.Duration(0))
		type cs struct {
			name      string
			env, file string // "" = not set
			want      string
		}
		cases := []cs{
			{"none", "", "", render(dv)},
			{"env", a, "", a},
			{"file", "", a, a},
			{"env+file", a, b, a},
			{"env+file(swapped)", b, a, b},
		}
		if l.Type.Kind() == reflect.String {
			if _, fixed := domainOf[l.Key]; !fixed {
				// free-form strings (passwords, tokens, paths): characters that a shell, a template
				// engine or YAML would treat specially must arrive untouched from either source
				sp := "S3cr$t-pa$$-${HOME}-$USER %d {{x}} #k \\n"
				cases = append(cases, cs{"file(special chars)", "", sp, sp}, cs{"env(special chars)", sp, "", sp})
			}
		}
		for _, c := range cases {
			file := ""
			if c.file != "" {
				file = filepath.Join(dir, "cfg.yaml")
				_ = os.WriteFile(file, []byte(yamlFor(l.Key, c.file, quote)), 0o644)
			}
			envm := map[string]string{}
			if c.env != "" {
				envm[envName(l.Key)] = c.env
			}
			cfg, err := loadOnce(file, envm)
			rep.Evaluations++
			rep.Executions++
			rep.States++
			rep.Transitions++
			if c.env != "" || c.file != "" {
				rep.DistinctNontrivial++
			}
			rep.Outcome("sources:" + c.name)
			replay := map[string]any{"engine": "domwalk", "property": "C20", "key": l.Key, "sources": c.name, "env": c.env, "file": c.file}
			if err != nil {
				rep.Violate(core.Violation{Kind: "load.error/" + c.name, What: fmt.Sprintf("key %s: loading failed: %v", l.Key, err), Replay: replay})
				continue
			}
			if got := render(get(cfg, l)); got != c.want {
				kind := "precedence/" + c.name
				rep.Violate(core.Violation{Kind: kind, What: fmt.Sprintf("key %s (%s): effective value", l.Key, c.name), Replay: replay, Expected: c.want, Observed: got})
			}
			for _, o := range ls {
				if o.Key == l.Key {
					continue
				}
				if got, want := render(get(cfg, o)), render(get(defaults, o)); got != want {
					rep.Violate(core.Violation{Kind: "other_key_changed", What: fmt.Sprintf("setting %s (%s) changed %s", l.Key, c.name, o.Key), Replay: replay, Expected: want, Observed: got})
				}
			}
			rep.Sample(func() any {
				return map[string]any{"key": l.Key, "sources": c.name, "env": c.env, "file": c.file, "effective": render(get(cfg, l))}
			})
		}
	}
	viper.Reset()
	if env.ShardI != 0 {
		return
	}
	// database sections
	existing := filepath.Join(dir, "prepared.csv.gz")
	_ = os.WriteFile(existing, []byte("x"), 0o644)
	for _, engine := range []string{"sqlite", "postgres", "", "mysql"} {
		for _, sp := range []string{"", "./x.db"} {
			for mask := 0; mask < 16; mask++ {
				for _, prepared := range []bool{false, true} {
					for _, pf := range []string{existing, filepath.Join(dir, "missing.gz"), ""} {
						c := &config.DbConfig{Engine: config.DbEngine(engine), PreparedDb: prepared, PreparedDbFilePath: pf}
						c.SQLite.FilePath = sp
						if mask&1 != 0 {
							c.Postgres.Host = "h"
						}
						if mask&2 != 0 {
							c.Postgres.Port = 5432
						}
						if mask&4 != 0 {
							c.Postgres.User = "u"
						}
						if mask&8 != 0 {
							c.Postgres.DbName = "d"
						}
						valid := true
						switch engine {
						case "sqlite":
							valid = sp != ""
						case "postgres":
							valid = mask == 15
						default:
							valid = false
						}
						if prepared && pf != existing {
							valid = false
						}
						err := (&config.AppConfig{Db: c}).Validate()
						rep.Evaluations++
						rep.Executions++
						if !valid {
							rep.DistinctNontrivial++
						}
						rep.Outcome(fmt.Sprintf("validate:valid=%v", valid))
						if (err == nil) != valid {
							rep.Violate(core.Violation{Kind: fmt.Sprintf("validate/engine=%s", engine), What: fmt.Sprintf("engine=%q sqlite_path=%q postgres_mask=%04b prepared=%v prepared_file=%q", engine, sp, mask, prepared, filepath.Base(pf)),
								Replay: map[string]any{"engine": "domwalk", "property": "C20", "section": fmt.Sprintf("%+v", *c)}, Expected: map[bool]string{true: "accepted", false: "refused"}[valid], Observed: fmt.Sprint(err)})
						}
					}
				}
			}
		}
	}
	if err := (&config.AppConfig{}).Validate(); err == nil {
		rep.Violate(core.Violation{Kind: "validate/nil_db", What: "a configuration without a db section was accepted", Replay: map[string]any{"engine": "domwalk"}})
	}
}
