package domwalk

import (
	"bytes"
	"crypto/sha256"
	"encoding/binary"
	"fmt"
	"net"
	"os"
	"reflect"
	"runtime/debug"
	"runtime/metrics"
	"strings"
	"time"

	"github.com/bitcoin-sv/block-headers-service/internal/chaincfg/chainhash"
	"github.com/bitcoin-sv/block-headers-service/internal/wire"
	"github.com/bitcoin-sv/block-headers-service/verifh/core"
)

func init() { props["C14"] = runC14 }

const c14Net = wire.MainNet
const c14Limit = 1000000 // wire.SetLimits value for the run: maxMessagePayload = 2 MiB

// every version at which the encoding of some message changes, and the one below it: the service
// accepts peers from version 209 on and speaks min(own, peer's)
var pvers = []uint32{70013, 70012, 70011, 70002, 70001, 60002, 60001, 60000, 31402, 31401, 209}

// first protocol version that knows the message (below it the encoder must refuse, from it on it
// must not)
var minPver = map[string]uint32{"sendheaders": 70012, "feefilter": 70013, "reject": 70002, "mempool": 60002, "pong": 60001}

// knownCommands: written out here, independent of the table in package wire
var knownCommands = map[string]bool{"version": true, "verack": true, "getaddr": true, "addr": true, "getblocks": true, "inv": true, "getdata": true,
	"notfound": true, "block": true, "tx": true, "getheaders": true, "headers": true, "ping": true, "pong": true, "mempool": true, "filteradd": true,
	"filterclear": true, "filterload": true, "merkleblock": true, "reject": true, "sendheaders": true, "feefilter": true, "getcfilters": true,
	"getcfheaders": true, "getcfcheckpt": true, "cfilter": true, "cfheaders": true, "cfcheckpt": true, "protoconf": true, "authch": true}

// expectedAt is the message a peer can recover at the given protocol version: fields the format
// does not carry at that version come back as their zero value.
func expectedAt(m wire.Message, pver uint32) wire.Message {
	switch x := m.(type) {
	case *wire.MsgPing:
		if pver <= 60000 {
			c := *x
			c.Nonce = 0
			return &c
		}
	case *wire.MsgAddr:
		if pver < 31402 {
			c := *x
			c.AddrList = nil
			for _, a := range x.AddrList {
				b := *a
				b.Timestamp = time.Time{}
				c.AddrList = append(c.AddrList, &b)
			}
			return &c
		}
	case *wire.MsgVersion:
		if pver < 70001 {
			c := *x
			c.DisableRelayTx = false
			return &c
		}
	}
	return m
}

type seed struct {
	Kind string
	Desc string
	Msg  wire.Message
	// Refuse: the encoder must refuse this message (element count or string above the limit).
	Refuse bool
}

func h32(b byte) chainhash.Hash {
	var h chainhash.Hash
	for i := range h {
		h[i] = b
	}
	return h
}

func na(ts int64, svc wire.ServiceFlag, ip string, port uint16) *wire.NetAddress {
	return &wire.NetAddress{Timestamp: time.Unix(ts, 0), Services: svc, IP: net.ParseIP(ip).To16(), Port: port}
}

func bh(v int32, p, m byte, ts uint32, bits, nonce uint32) *wire.BlockHeader {
	return &wire.BlockHeader{Version: v, PrevBlock: h32(p), MerkleRoot: h32(m), Timestamp: time.Unix(int64(ts), 0), Bits: bits, Nonce: nonce}
}

// seeds builds the message shapes. small=true limits element counts to <= 2 (frames used as
// mutation seeds).
func seeds(small bool) []seed {
	var out []seed
	add := func(kind, desc string, m wire.Message) { out = append(out, seed{kind, desc, m, false}) }
	refuse := func(kind, desc string, m wire.Message) { out = append(out, seed{kind, desc, m, true}) }
	counts := func(limit int) []int {
		if small {
			return []int{0, 1, 2}
		}
		return []int{0, 1, 2, limit}
	}
	// empty-payload kinds
	add("verack", "", wire.NewMsgVerAck())
	add("getaddr", "", wire.NewMsgGetAddr())
	add("sendheaders", "", wire.NewMsgSendHeaders())
	add("mempool", "", wire.NewMsgMemPool())
	// ping / pong / feefilter
	for _, n := range []uint64{0, 1, 0x7fffffffffffffff, 0xffffffffffffffff} {
		add("ping", fmt.Sprint("nonce ", n), wire.NewMsgPing(n))
		add("pong", fmt.Sprint("nonce ", n), wire.NewMsgPong(n))
	}
	for _, f := range []int64{0, 1, -1, 9223372036854775807, -9223372036854775808} {
		add("feefilter", fmt.Sprint("minfee ", f), wire.NewMsgFeeFilter(f))
	}
	// version: each field over its boundary alphabet, the others at base
	baseV := func() *wire.MsgVersion {
		return &wire.MsgVersion{ProtocolVersion: 70013, Services: wire.SFNodeNetwork, Timestamp: time.Unix(1600000000, 0),
			AddrYou: *na(0, wire.SFNodeNetwork, "10.0.0.1", 8333), AddrMe: *na(0, 0, "::1", 0), Nonce: 42, UserAgent: "/verif:1.0/", LastBlock: 700000}
	}
	// the version message carries no timestamps inside its addresses
	zeroT := func(v *wire.MsgVersion) *wire.MsgVersion {
		v.AddrYou.Timestamp, v.AddrMe.Timestamp = time.Time{}, time.Time{}
		return v
	}
	add("version", "base", zeroT(baseV()))
	for _, pv := range []int32{0, -1, 2147483647, 209} {
		v := zeroT(baseV())
		v.ProtocolVersion = pv
		add("version", fmt.Sprint("protocol ", pv), v)
	}
	for _, s := range []wire.ServiceFlag{0, 0xffffffffffffffff} {
		v := zeroT(baseV())
		v.Services = s
		v.AddrYou.Services = s
		add("version", fmt.Sprint("services ", uint64(s)), v)
	}
	for _, ts := range []int64{0, 1, 4294967295, 4294967296, -1} {
		v := zeroT(baseV())
		v.Timestamp = time.Unix(ts, 0)
		add("version", fmt.Sprint("timestamp ", ts), v)
	}
	for _, ua := range []string{"", "/a/", strings.Repeat("u", 256)} {
		v := zeroT(baseV())
		v.UserAgent = ua
		add("version", fmt.Sprintf("user agent len %d", len(ua)), v)
	}
	{
		v := zeroT(baseV())
		v.UserAgent = strings.Repeat("u", 257)
		refuse("version", "user agent len 257", v)
	}
	for _, lb := range []int32{0, -1, 2147483647} {
		v := zeroT(baseV())
		v.LastBlock, v.Nonce, v.DisableRelayTx = lb, 0xffffffffffffffff, lb == 0
		v.AddrMe = *na(0, 1, "2001:db8::ff", 65535)
		v.AddrMe.Timestamp = time.Time{}
		add("version", fmt.Sprint("lastblock ", lb), v)
	}
	// the peer's own version number is a field value like any other: it need not equal the
	// version the connection speaks (relay flag set, field below / at / above each boundary)
	for _, pv := range []int32{209, 31402, 60002, 70000, 70001, 70013, 80000} {
		v := zeroT(baseV())
		v.ProtocolVersion, v.DisableRelayTx = pv, true
		add("version", fmt.Sprint("no-relay, protocol field ", pv), v)
	}
	// addr
	for _, c := range counts(wire.MaxAddrPerMsg) {
		m := wire.NewMsgAddr()
		for i := 0; i < c; i++ {
			_ = m.AddAddress(na(int64(1600000000+i), wire.ServiceFlag(i), fmt.Sprintf("10.1.%d.%d", i/250, i%250), uint16(i)))
		}
		add("addr", fmt.Sprint("count ", c), m)
	}
	for _, ts := range []int64{0, 1, 4294967295} {
		m := wire.NewMsgAddr()
		_ = m.AddAddress(na(ts, 0xffffffffffffffff, "ffff:ffff:ffff:ffff:ffff:ffff:ffff:ffff", 65535))
		add("addr", fmt.Sprint("timestamp ", ts), m)
	}
	if !small {
		m := wire.NewMsgAddr()
		for i := 0; i <= wire.MaxAddrPerMsg; i++ {
			m.AddrList = append(m.AddrList, na(1, 0, "10.0.0.1", 1))
		}
		refuse("addr", "count limit+1", m)
	}
	// getheaders / getblocks
	for _, c := range counts(wire.MaxBlockLocatorsPerMsg) {
		for _, pv := range []uint32{0, 70013, 0xffffffff} {
			g := wire.NewMsgGetHeaders()
			g.ProtocolVersion = pv
			stop := h32(0)
			if pv == 0 {
				stop = h32(0xff)
			}
			g.HashStop = stop
			b := wire.NewMsgGetBlocks(&stop)
			b.ProtocolVersion = pv
			for i := 0; i < c; i++ {
				h := h32(byte(i + 1))
				_ = g.AddBlockLocatorHash(&h)
				h2 := h32(byte(i + 1))
				_ = b.AddBlockLocatorHash(&h2)
			}
			add("getheaders", fmt.Sprintf("count %d pver-field %d", c, pv), g)
			add("getblocks", fmt.Sprintf("count %d pver-field %d", c, pv), b)
		}
	}
	if !small {
		g := wire.NewMsgGetHeaders()
		for i := 0; i <= wire.MaxBlockLocatorsPerMsg; i++ {
			h := h32(byte(i))
			g.BlockLocatorHashes = append(g.BlockLocatorHashes, &h)
		}
		refuse("getheaders", "count limit+1", g)
	}
	// headers
	for _, c := range counts(wire.MaxBlockHeadersPerMsg) {
		m := wire.NewMsgHeaders()
		for i := 0; i < c; i++ {
			_ = m.AddBlockHeader(bh(int32(i), byte(i), byte(i+1), uint32(1600000000+i), 0x1d00ffff, uint32(i)))
		}
		add("headers", fmt.Sprint("count ", c), m)
	}
	for _, f := range []struct {
		v  int32
		ts uint32
		b  uint32
		n  uint32
	}{{-2147483648, 0, 0, 0}, {2147483647, 0xffffffff, 0xffffffff, 0xffffffff}, {-1, 0x80000000, 0x00800000, 1}} {
		m := wire.NewMsgHeaders()
		_ = m.AddBlockHeader(bh(f.v, 0xff, 0x00, f.ts, f.b, f.n))
		add("headers", fmt.Sprintf("fields %+v", f), m)
	}
	if !small {
		m := wire.NewMsgHeaders()
		for i := 0; i <= wire.MaxBlockHeadersPerMsg; i++ {
			m.Headers = append(m.Headers, bh(1, 1, 1, 1, 1, 1))
		}
		refuse("headers", "count limit+1", m)
	}
	// inv / getdata / notfound
	for _, c := range counts(wire.MaxInvPerMsg) {
		mi, mg, mn := wire.NewMsgInv(), wire.NewMsgGetData(), wire.NewMsgNotFound()
		for i := 0; i < c; i++ {
			h := h32(byte(i))
			typ := wire.InvType(i % 4)
			_ = mi.AddInvVect(wire.NewInvVect(typ, &h))
			_ = mg.AddInvVect(wire.NewInvVect(typ, &h))
			_ = mn.AddInvVect(wire.NewInvVect(typ, &h))
		}
		add("inv", fmt.Sprint("count ", c), mi)
		add("getdata", fmt.Sprint("count ", c), mg)
		add("notfound", fmt.Sprint("count ", c), mn)
	}
	{
		mi := wire.NewMsgInv()
		h := h32(0xff)
		_ = mi.AddInvVect(wire.NewInvVect(wire.InvType(0xffffffff), &h))
		add("inv", "type 0xffffffff", mi)
	}
	if !small {
		mi := wire.NewMsgInv()
		h := h32(1)
		for i := 0; i <= wire.MaxInvPerMsg; i++ {
			mi.InvList = append(mi.InvList, wire.NewInvVect(wire.InvTypeBlock, &h))
		}
		refuse("inv", "count limit+1", mi)
	}
	// reject
	for _, cmd := range []string{"", "tx", "block", "version", strings.Repeat("c", 12)} {
		for _, reason := range []string{"", "r", strings.Repeat("reason ", 20)} {
			for _, code := range []wire.RejectCode{wire.RejectMalformed, wire.RejectInvalid, wire.RejectCode(0), wire.RejectCode(0xff)} {
				m := wire.NewMsgReject(cmd, code, reason)
				if cmd == "tx" || cmd == "block" {
					m.Hash = h32(0xab)
				}
				add("reject", fmt.Sprintf("cmd %q code %d reason len %d", cmd, code, len(reason)), m)
			}
		}
	}
	return out
}

func frameOf(m wire.Message, pver uint32) ([]byte, error) {
	var buf bytes.Buffer
	err := wire.WriteMessage(&buf, m, pver, c14Net)
	return buf.Bytes(), err
}

type decodeResult struct {
	Msg   wire.Message
	Err   error
	Panic string
	Alloc uint64
	Reads int
	Spin  int // > 0: the decoder was stopped after that many reads
}

type countingReader struct {
	r     *bytes.Reader
	reads int
	// nested, if set, runs inside every Read: another connection's decode interleaved with
	// this one at read granularity
	nested func()
}

// spinLimit: no decode of the inputs used here needs anywhere near that many reads; a decoder
// that keeps reading an exhausted stream is stopped by a panic the caller turns into a finding
// (a count, not a clock)
const spinLimit = 2_000_000

type spinning struct{ reads int }

func (c *countingReader) Read(p []byte) (int, error) {
	c.reads++
	if c.reads > spinLimit {
		panic(spinning{c.reads})
	}
	n, err := c.r.Read(p)
	if c.nested != nil {
		// (after the bytes have landed in the caller's buffer and before the caller looks at them)
		c.nested()
	}
	return n, err
}

var allocSample = []metrics.Sample{{Name: "/gc/heap/allocs:bytes"}}

func allocBytes() uint64 {
	metrics.Read(allocSample)
	return allocSample[0].Value.Uint64()
}

func decode(b []byte, pver uint32) (res decodeResult) {
	cr := &countingReader{r: bytes.NewReader(b)}
	a0 := allocBytes()
	defer func() {
		if p := recover(); p != nil {
			if sp, ok := p.(spinning); ok {
				res.Spin = sp.reads
			} else {
				res.Panic = fmt.Sprintf("%v\n%s", p, debug.Stack())
			}
		}
		res.Alloc = allocBytes() - a0
		res.Reads = cr.reads
	}()
	m, _, err := wire.ReadMessage(cr, pver, c14Net)
	res.Msg, res.Err = m, err
	return
}

func dsha(b []byte) [4]byte {
	h1 := sha256.Sum256(b)
	h2 := sha256.Sum256(h1[:])
	return [4]byte{h2[0], h2[1], h2[2], h2[3]}
}

// reframe builds a frame with the given payload under the header of frame (command kept),
// with correct length and checksum.
func reframe(frame []byte, payload []byte) []byte {
	out := append([]byte{}, frame[:24]...)
	binary.LittleEndian.PutUint32(out[16:20], uint32(len(payload)))
	cs := dsha(payload)
	copy(out[20:24], cs[:])
	return append(out, payload...)
}

func runC14(env core.Env, rep *core.Report) {
	wire.SetLimits(c14Limit)
	maxPayload := uint64(2 * 1024 * 1024)
	rep.Rule = "one evaluation = one encode/decode round trip of one message shape under one protocol version, or one decode of one mutated frame; non-trivial = a boundary field value / limit-size list, or any mutated frame; distinct by (kind, shape, version) or (seed frame, mutation)"
	rep.Bound = "[round trip: 16 kinds x shapes (counts 0,1,2,limit; limit+1 must be refused; each scalar over its boundary alphabet) x protocol versions {70013,70012,70011,70002,70001,60002,60001,60000,31402,31401,209} (every version at which an encoding changes and its predecessor; fields a version does not carry must come back as zero, a message may be refused only below the version that introduced it)] [hostile: for every seed frame with <=2 elements: every single-bit flip of the frame, every truncation, 8 length-field values, every payload bit flip / truncation / varint splice at every position with recomputed checksum, one splice per ordered pair of kinds at every cut, wrong magic (also with 7 length-field values up to 2^32-1), bad checksum, unknown and invalid-UTF-8 command; every ordered pair of 40 seed frames decoded interleaved at read granularity] [thorough adds: every value of every payload byte, every pair of payload bit flips (payloads <= 96 bytes), splices at every pair of cuts]"
	progress, _ := os.OpenFile(env.Out+".progress", os.O_CREATE|os.O_RDWR, 0o644)
	mark := func(s string) {
		if progress != nil {
			b := []byte(fmt.Sprintf("%-200.200s", s))
			_, _ = progress.WriteAt(b, 0)
		}
	}
	viol := func(kind, what string, replay any, exp, obs any) {
		rep.Violate(core.Violation{Kind: kind, What: what, Replay: replay, Expected: exp, Observed: obs})
	}
	// ---- round trip -------------------------------------------------------------------------
	idx := 0
	for _, s := range seeds(false) {
		for _, pver := range pvers {
			idx++
			if !env.Mine(idx) || rep.Expired() {
				continue
			}
			rep.Evaluations++
			rep.Executions++
			rep.States++
			rp := map[string]any{"engine": "domwalk", "property": "C14", "kind": s.Kind, "shape": s.Desc, "pver": pver}
			frame, err := frameOf(s.Msg, pver)
			if s.Refuse {
				rep.DistinctNontrivial++
				rep.Outcome("encode:must-refuse")
				if err == nil {
					viol("encode.accepted_over_limit/"+s.Kind, fmt.Sprintf("%s %s: the encoder accepted a message above the protocol limit", s.Kind, s.Desc), rp, "error", fmt.Sprintf("%d bytes", len(frame)))
				}
				continue
			}
			if err != nil {
				if pver < minPver[s.Kind] {
					rep.Outcome("encode:refused-for-version")
				} else {
					viol("encode.refused_legal/"+s.Kind, fmt.Sprintf("%s %s pver %d: the encoder refuses a message within the protocol limits: %v", s.Kind, s.Desc, pver, err), rp, "a frame", err.Error())
				}
				continue
			}
			// (an encoder that accepts a message below its version is not judged by itself: what it
			// wrote must then round-trip like any other frame)
			if s.Desc != "" && s.Desc != "base" {
				rep.DistinctNontrivial++
			}
			d := decode(frame, pver)
			if d.Panic != "" || d.Err != nil {
				viol("roundtrip.decode_failed/"+s.Kind, fmt.Sprintf("%s %s pver %d: decode of the encoder's own bytes failed: %v %s", s.Kind, s.Desc, pver, d.Err, firstLine(d.Panic)), rp, nil, nil)
				continue
			}
			if !reflect.DeepEqual(normalize(d.Msg), normalize(expectedAt(s.Msg, pver))) {
				viol("roundtrip.not_equal/"+s.Kind, fmt.Sprintf("%s %s pver %d: decode(encode(m)) != m", s.Kind, s.Desc, pver), rp, fmt.Sprintf("%+v", s.Msg), fmt.Sprintf("%+v", d.Msg))
				continue
			}
			f2, err := frameOf(d.Msg, pver)
			if err != nil || !bytes.Equal(f2, frame) {
				viol("roundtrip.reencode/"+s.Kind, fmt.Sprintf("%s %s pver %d: re-encoding the decoded message does not reproduce the bytes (%v)", s.Kind, s.Desc, pver, err), rp, len(frame), len(f2))
			}
			rep.Outcome("roundtrip:" + s.Kind)
			rep.Sample(func() any {
				return map[string]any{"kind": s.Kind, "shape": s.Desc, "pver": pver, "frame_bytes": len(frame)}
			})
		}
	}
	// ---- hostile bytes ----------------------------------------------------------------------
	small := seeds(true)
	type sf struct {
		s     seed
		frame []byte
	}
	var frames []sf
	repOfKind := map[string][]byte{}
	for _, s := range small {
		if s.Refuse {
			continue
		}
		f, err := frameOf(s.Msg, wire.ProtocolVersion)
		if err != nil {
			continue
		}
		frames = append(frames, sf{s, f})
		if len(f) > len(repOfKind[s.Kind]) {
			repOfKind[s.Kind] = f
		}
	}
	// protoconf / authch: commands whose payload is ignored on decode
	for _, cmd := range []string{"protoconf", "authch"} {
		payload := []byte{2, 0x00, 0x00, 0x20, 0x00, 0x02, 'a', 'b'}
		hdr := make([]byte, 24)
		binary.LittleEndian.PutUint32(hdr[0:4], uint32(c14Net))
		copy(hdr[4:16], cmd)
		f := reframe(hdr, payload)
		frames = append(frames, sf{seed{Kind: cmd, Desc: "hand-built"}, f})
		repOfKind[cmd] = f
	}
	pver := wire.ProtocolVersion
	judge := func(class string, s seed, mutation string, b []byte, mustReject bool) {
		rep.Evaluations++
		rep.Executions++
		rep.DistinctNontrivial++
		rep.Transitions++
		mark(fmt.Sprintf("class=%s kind=%s shape=%s mutation=%s", class, s.Kind, s.Desc, mutation))
		rp := map[string]any{"engine": "domwalk", "property": "C14", "class": class, "kind": s.Kind, "shape": s.Desc, "mutation": mutation, "frame_hex": fmt.Sprintf("%x", clipb(b))}
		d := decode(b, pver)
		switch {
		case d.Spin > 0:
			viol("hostile.spin/"+s.Kind+"/"+class, fmt.Sprintf("%s [%s] %s: the decoder was still reading after %d reads of a %d-byte input", s.Kind, s.Desc, mutation, d.Spin, len(b)), rp, "error or message", d.Spin)
			return
		case d.Panic != "":
			viol("hostile.panic/"+s.Kind+"/"+class, fmt.Sprintf("%s [%s] %s: decoder panicked: %s", s.Kind, s.Desc, mutation, firstLine(d.Panic)), rp, "error or message", d.Panic)
			return
		case d.Alloc > maxPayload+4*1024*1024:
			viol("hostile.alloc/"+s.Kind+"/"+class, fmt.Sprintf("%s [%s] %s: decoding %d bytes allocated %d bytes (payload limit %d)", s.Kind, s.Desc, mutation, len(b), d.Alloc, maxPayload), rp, maxPayload, d.Alloc)
		case d.Reads > len(b)+int(maxPayload/10240)+64:
			// (skipping the declared payload of a refused frame is done in 10 kB reads; each read
			// of an exhausted stream returns at once, so that many reads are not a hang)
			viol("hostile.spin/"+s.Kind+"/"+class, fmt.Sprintf("%s %s: %d reads for %d bytes", s.Kind, mutation, d.Reads, len(b)), rp, nil, d.Reads)
		}
		if d.Err != nil {
			rep.Outcome("hostile:" + class + ":rejected")
			return
		}
		rep.Outcome("hostile:" + class + ":decoded")
		if mustReject {
			viol("hostile.accepted/"+class, fmt.Sprintf("%s [%s] %s: the frame must be rejected", s.Kind, s.Desc, mutation), rp, "error", fmt.Sprintf("%T", d.Msg))
			return
		}
		// Statistic only (the statement demands an error or a message, nothing about the shape
		// of messages decoded from hostile bytes): does the decoded message survive encode->decode?
		if f2, err := frameOf(d.Msg, pver); err == nil {
			if d2 := decode(f2, pver); d2.Panic != "" {
				viol("hostile.panic/"+s.Kind+"/reencode", fmt.Sprintf("%s [%s] %s: re-decoding the re-encoded message panicked", s.Kind, s.Desc, mutation), rp, nil, d2.Panic)
			} else if d2.Err != nil || !reflect.DeepEqual(normalize(d2.Msg), normalize(d.Msg)) {
				rep.Outcome("hostile:decoded-but-not-canonical")
			}
		}
	}
	varints := [][]byte{{0xfc}, {0xfd, 0xe8, 0x03}, {0xfd, 0xe9, 0x03}, {0xfd, 0xff, 0xff}, {0xfe, 0x51, 0xc3, 0x00, 0x00}, {0xfe, 0xff, 0xff, 0xff, 0xff},
		{0xff, 0xff, 0xff, 0xff, 0xff, 0xff, 0xff, 0xff, 0xff}, {0xfd, 0x01, 0x00}, {0xfe, 0x01, 0x00, 0x00, 0x00}, {0xff, 0x01, 0, 0, 0, 0, 0, 0, 0}}
	for fi, x := range frames {
		if !env.Mine(fi) || rep.Expired() {
			continue
		}
		rep.States++
		f, s := x.frame, x.s
		payload := f[24:]
		// (a) every single-bit flip of the raw frame
		for i := 0; i < len(f)*8; i++ {
			m := append([]byte{}, f...)
			m[i/8] ^= 1 << (i % 8)
			// a flip in the command field must be refused unless what results is a known command
			// padded with NULs
			cmdOK := true
			if i/8 >= 4 && i/8 < 16 {
				cmdOK = knownCommands[string(bytes.TrimRight(m[4:16], "\x00"))]
			}
			judge("bitflip-raw", s, fmt.Sprintf("bit %d", i), m, i/8 < 4 || (i/8 >= 20 && i/8 < 24) || (i/8 >= 24) || !cmdOK)
		}
		// (b) every truncation
		for n := 0; n < len(f); n++ {
			judge("truncate-raw", s, fmt.Sprintf("first %d bytes", n), f[:n], true)
		}
		// (d) length field values
		mpl := s.Msg
		var kindMax uint32 = 0
		if mpl != nil {
			kindMax = mpl.MaxPayloadLength(pver)
		}
		for _, l := range []uint32{0, uint32(len(payload)) - 1, uint32(len(payload)) + 1, kindMax, kindMax + 1, uint32(maxPayload), uint32(maxPayload) + 1, 0xffffffff} {
			if l == uint32(len(payload)) {
				continue
			}
			m := append([]byte{}, f...)
			binary.LittleEndian.PutUint32(m[16:20], l)
			judge("length-field", s, fmt.Sprintf("length %d (payload %d)", l, len(payload)), m, true)
		}
		// (c) payload mutations with recomputed length + checksum: these reach the message decoders
		for i := 0; i < len(payload)*8; i++ {
			p := append([]byte{}, payload...)
			p[i/8] ^= 1 << (i % 8)
			judge("bitflip-payload", s, fmt.Sprintf("payload bit %d", i), reframe(f, p), false)
		}
		for n := 0; n < len(payload); n++ {
			judge("truncate-payload", s, fmt.Sprintf("payload cut to %d", n), reframe(f, payload[:n]), false)
		}
		for i := 0; i < len(payload); i++ {
			for vi, v := range varints {
				p := append(append(append([]byte{}, payload[:i]...), v...), payload[i+1:]...)
				judge("varint-splice", s, fmt.Sprintf("payload[%d] := varint #%d", i, vi), reframe(f, p), false)
			}
		}
		if env.Tier == "thorough" {
			// (g) every value of every payload byte, (h) every pair of payload bit flips (payloads of
			// at most 96 bytes), both with recomputed length + checksum
			for i := 0; i < len(payload); i++ {
				for v := 0; v < 256; v++ {
					if byte(v) == payload[i] {
						continue
					}
					p := append([]byte{}, payload...)
					p[i] = byte(v)
					judge("byte-value", s, fmt.Sprintf("payload[%d] := %#02x", i, v), reframe(f, p), false)
				}
				if rep.Expired() {
					break
				}
			}
			if len(payload) <= 96 {
				for i := 0; i < len(payload)*8 && !rep.Expired(); i++ {
					for j := i + 1; j < len(payload)*8; j++ {
						p := append([]byte{}, payload...)
						p[i/8] ^= 1 << (i % 8)
						p[j/8] ^= 1 << (j % 8)
						judge("bitflip-pair", s, fmt.Sprintf("payload bits %d,%d", i, j), reframe(f, p), false)
					}
				}
			}
		}
		// (f) rejection classes
		m := append([]byte{}, f...)
		binary.LittleEndian.PutUint32(m[0:4], uint32(wire.TestNet3))
		judge("wrong-magic", s, "testnet magic", m, true)
		for _, l := range []uint32{0, uint32(maxPayload) + 1, 0x7fffffff, 0x80000000, 0xfffff000, 0xfffff001, 0xffffffff} {
			m2 := append([]byte{}, m...)
			binary.LittleEndian.PutUint32(m2[16:20], l)
			judge("wrong-magic+length", s, fmt.Sprintf("testnet magic, length field %d", l), m2, true)
			m3 := append([]byte{}, m2[:24]...)
			judge("wrong-magic+length", s, fmt.Sprintf("testnet magic, length field %d, header only", l), m3, true)
		}
		m = append([]byte{}, f...)
		m[20] ^= 0xff
		judge("bad-checksum", s, "checksum byte inverted", m, true)
		m = append([]byte{}, f...)
		copy(m[4:16], []byte("nosuchcmd\x00\x00\x00"))
		judge("unknown-command", s, "command nosuchcmd", m, true)
		m = append([]byte{}, f...)
		copy(m[4:16], []byte{0xff, 0xfe, 0xfd, 0, 0, 0, 0, 0, 0, 0, 0, 0})
		judge("invalid-utf8-command", s, "command ff fe fd", m, true)
		rep.Sample(func() any { return map[string]any{"seed_kind": s.Kind, "seed_shape": s.Desc, "frame_bytes": len(f)} })
	}
	// (i) two decodes interleaved at read granularity (two connections served at once), after all
	// the refused frames above went through the codec: each must still return its own message
	if env.Mine(7) {
		var good []sf
		for _, x := range frames {
			if x.s.Msg != nil && len(good) < 40 {
				good = append(good, x)
			}
		}
		// (whatever a refused frame leaves behind in the codec's process-wide state must be there:
		// every truncation of these frames' payloads goes through this very process first)
		for _, a := range good {
			pl := a.frame[24:]
			for n := 0; n < len(pl); n++ {
				decode(reframe(a.frame, pl[:n]), pver)
			}
		}
		fresh := func(m wire.Message) wire.Message {
			return reflect.New(reflect.TypeOf(m).Elem()).Interface().(wire.Message)
		}
		payloadDecode := func(m wire.Message, payload []byte, nested func()) (out wire.Message, err error, pan string) {
			defer func() {
				if p := recover(); p != nil {
					pan = fmt.Sprint(p)
				}
			}()
			out = fresh(m)
			// the message decoder reads field by field straight from the reader (as it does from a
			// connection's buffer): the other decode runs between any two of those reads
			if nested == nil {
				err = out.Bsvdecode(bytes.NewBuffer(append([]byte{}, payload...)), pver, wire.BaseEncoding)
				return
			}
			err = out.Bsvdecode(&countingReader{r: bytes.NewReader(payload), nested: nested}, pver, wire.BaseEncoding)
			return
		}
		for _, a := range good {
			if a.s.Kind == "version" {
				continue // (its decoder insists on a *bytes.Buffer: it cannot be the outer one)
			}
			for _, b := range good {
				rep.Evaluations++
				rep.Executions++
				rep.DistinctNontrivial++
				var innerMsg wire.Message
				var innerErr error
				var innerPanic string
				busy := false
				nested := func() {
					if busy {
						return
					}
					busy = true
					innerMsg, innerErr, innerPanic = payloadDecode(b.s.Msg, b.frame[24:], nil)
					busy = false
				}
				ma, err, pa := payloadDecode(a.s.Msg, a.frame[24:], nested)
				okA := err == nil && pa == "" && reflect.DeepEqual(normalize(ma), normalize(a.s.Msg))
				okB := innerMsg == nil || (innerErr == nil && innerPanic == "" && reflect.DeepEqual(normalize(innerMsg), normalize(b.s.Msg)))
				if !okA || !okB {
					viol("interleaved.decode", fmt.Sprintf("decoding %s [%s] with a decode of %s [%s] running between its reads: one of the two did not return its own message", a.s.Kind, a.s.Desc, b.s.Kind, b.s.Desc),
						map[string]any{"engine": "domwalk", "property": "C14", "class": "interleaved", "outer": a.s.Kind + " " + a.s.Desc, "inner": b.s.Kind + " " + b.s.Desc}, "both messages as encoded", fmt.Sprintf("outer ok=%v (err %v %s), inner ok=%v (err %v %s)", okA, err, pa, okB, innerErr, innerPanic))
				} else {
					rep.Outcome("interleaved:ok")
				}
			}
		}
	}
	// (e) splices: header+prefix of kind A's payload + suffix of kind B's payload, at every cut
	var kinds []string
	for k := range repOfKind {
		kinds = append(kinds, k)
	}
	sortStrings(kinds)
	pi := 0
	for _, ka := range kinds {
		for _, kb := range kinds {
			pi++
			if ka == kb || !env.Mine(pi) || rep.Expired() {
				continue
			}
			fa, fb := repOfKind[ka], repOfKind[kb]
			pa, pb := fa[24:], fb[24:]
			for i := 0; i <= len(pa); i++ {
				cuts := []int{0, len(pb) / 2, len(pb)}
				if env.Tier == "thorough" {
					cuts = nil
					for j := 0; j <= len(pb); j++ {
						cuts = append(cuts, j)
					}
				}
				for _, j := range cuts {
					p := append(append([]byte{}, pa[:i]...), pb[j:]...)
					var sm wire.Message
					for _, x := range frames {
						if x.s.Kind == ka {
							sm = x.s.Msg
						}
					}
					judge("splice", seed{Kind: ka, Desc: "spliced with " + kb, Msg: sm}, fmt.Sprintf("A[:%d]+B[%d:]", i, j), reframe(fa, p), false)
				}
			}
		}
	}
	mark("done")
	_ = progress.Close()
	_ = os.Remove(env.Out + ".progress")
}

func clipb(b []byte) []byte {
	if len(b) > 400 {
		return b[:400]
	}
	return b
}

func firstLine(s string) string {
	if i := strings.Index(s, "\n"); i >= 0 {
		return s[:i]
	}
	return s
}

func sortStrings(s []string) {
	for i := 1; i < len(s); i++ {
		for j := i; j > 0 && s[j] < s[j-1]; j-- {
			s[j], s[j-1] = s[j-1], s[j]
		}
	}
}

// normalize maps a message to a comparable form: nil and empty slices are the same list.
func normalize(m wire.Message) any {
	v := reflect.ValueOf(m)
	if v.Kind() == reflect.Ptr {
		v = v.Elem()
	}
	cp := reflect.New(v.Type()).Elem()
	cp.Set(v)
	for i := 0; i < cp.NumField(); i++ {
		f := cp.Field(i)
		if f.Kind() == reflect.Slice && f.Len() == 0 && f.CanSet() {
			f.Set(reflect.MakeSlice(f.Type(), 0, 0))
		}
	}
	return cp.Interface()
}
