package schedwalk

import (
	"encoding/json"
	"errors"
	"fmt"
	"github.com/bitcoin-sv/block-headers-service/internal/chaincfg/chainhash"
	"io"
	"net/http"
	"sort"
	"strings"
	"testing"
	"testing/synctest"

	"github.com/bitcoin-sv/block-headers-service/config"
	"github.com/bitcoin-sv/block-headers-service/domains"
	"github.com/bitcoin-sv/block-headers-service/notification"
	"github.com/bitcoin-sv/block-headers-service/repository"
	"github.com/bitcoin-sv/block-headers-service/verifh/core"
	"github.com/centrifugal/centrifuge"
)

// C11: exactly one ADD event per stored header on every channel; none for duplicates, forbidden
// or failed submissions; a failing or never-returning channel neither blocks ingestion nor the
// other channels. Threads: the submitter (one scheduling point per submission) and one delivery
// goroutine per (event, channel) spawned by the real Notifier (one scheduling point at its start).

type c11scenario struct {
	History []string  `json:"history"`   // a | b | dup-a | forbidden | fail-c
	Behave  [3]string `json:"behaviour"` // per channel (webhook, websocket, recorder): ok | error | hang
	// Long > 0: the history is a linear chain of that many new headers (symbols n1..nK) - long
	// enough to exhaust any small pool of delivery slots a hanging channel could hold on to
	Long int `json:"long,omitempty"`
}

type evRec struct {
	Hash   string
	Fields string
	// raw is the very slice the websocket channel handed to the publisher (not a copy): a broker
	// keeps it - in the channel history, in the clients' write queues - after Publish returns
	raw []byte
}

func (e evRec) String() string { return e.Hash + "/" + e.Fields }

type sink struct {
	name   string
	events []evRec
}

func eventFields(ev *domains.HeaderEvent) evRec {
	h := ev.Header
	return evRec{Hash: h.Hash, Fields: fmt.Sprintf("%s|%s|h%d|%s|v%d|%s|%s|n%d|t%d|w%s", ev.Operation, h.Hash, h.Height, h.State, h.Version, h.MerkleRoot, h.PreviousBlock, h.Nonce, h.Timestamp.Unix(), h.CumulatedWork)}
}

func jsonFields(b []byte) (evRec, error) {
	var ev domains.HeaderEvent
	if err := json.Unmarshal(b, &ev); err != nil || ev.Header == nil {
		return evRec{}, fmt.Errorf("not an event: %s", b)
	}
	return eventFields(&ev), nil
}

// wrapCh puts the scheduling point in front of a real channel's Notify and tells the scheduler
// when the delivery goroutine is through.
type wrapCh struct {
	s     *Sched
	name  string
	inner notification.Channel
}

func (w *wrapCh) Notify(e notification.Event) {
	w.s.Point("deliver:" + w.name)
	defer w.s.Done()
	w.inner.Notify(e)
}

type hangForever struct{ release chan struct{} }

// scripted webhook client
type c11client struct {
	s      *Sched
	sink   *sink
	behave string
	hang   *hangForever
}

func (c *c11client) Call(_ map[string]string, _ string, _ string, body any) (*http.Response, error) {
	b, _ := json.Marshal(body)
	if r, err := jsonFields(b); err == nil {
		c.sink.events = append(c.sink.events, r)
	} else {
		c.sink.events = append(c.sink.events, evRec{Hash: "?", Fields: err.Error()})
	}
	switch c.behave {
	case "error":
		return nil, errors.New("connection refused")
	case "hang":
		c.s.Block()
		<-c.hang.release
		return nil, errors.New("released at teardown")
	}
	return &http.Response{StatusCode: 200, Body: io.NopCloser(strings.NewReader("ok"))}, nil
}

// recording websocket publisher
type c11pub struct {
	s      *Sched
	sink   *sink
	behave string
	hang   *hangForever
}

func (p *c11pub) Publish(channel string, data []byte, _ ...centrifuge.PublishOption) (centrifuge.PublishResult, error) {
	if channel != "headers" {
		p.sink.events = append(p.sink.events, evRec{Hash: "?", Fields: "published to channel " + channel})
	} else if r, err := jsonFields(data); err == nil {
		r.raw = data
		p.sink.events = append(p.sink.events, r)
	} else {
		p.sink.events = append(p.sink.events, evRec{Hash: "?", Fields: err.Error()})
	}
	switch p.behave {
	case "error":
		return centrifuge.PublishResult{}, errors.New("broker down")
	case "hang":
		p.s.Block()
		<-p.hang.release
	}
	return centrifuge.PublishResult{}, nil
}

// plain recording channel
type c11rec struct {
	s      *Sched
	sink   *sink
	behave string
	hang   *hangForever
}

func (r *c11rec) Notify(e notification.Event) {
	if ev, ok := e.(*domains.HeaderEvent); ok {
		r.sink.events = append(r.sink.events, eventFields(ev))
	} else {
		r.sink.events = append(r.sink.events, evRec{Hash: "?", Fields: fmt.Sprintf("%T", e)})
	}
	if r.behave == "hang" {
		r.s.Block()
		<-r.hang.release
	}
}

// failRepo makes the insert of one particular hash fail.
type failRepo struct {
	repository.Headers
	failHash string
	// armed by the submitter around one submission: the tip lookup / the state switch fails
	failTip, failUpdate bool
}

func (f *failRepo) GetTip() (*domains.BlockHeader, error) {
	if f.failTip {
		return nil, errors.New("injected tip lookup failure")
	}
	return f.Headers.GetTip()
}

func (f *failRepo) UpdateState(hs []chainhash.Hash, st domains.HeaderState) error {
	if f.failUpdate {
		return errors.New("injected state update failure")
	}
	return f.Headers.UpdateState(hs, st)
}

func (f *failRepo) AddHeaderToDatabase(h domains.BlockHeader) error {
	if h.Hash.String() == f.failHash {
		return errors.New("injected insert failure")
	}
	return f.Headers.AddHeaderToDatabase(h)
}

func runC11(rep *core.Report, sc c11scenario, prefix []int, seen map[string]bool) []point {
	// universe: a<-G, b<-a, c<-G (insert fails), f<-G (forbidden)
	L := core.BitsLight
	u := core.Fabricate(core.Blueprint{Nodes: []core.BNode{{}, {Parent: 0, Bits: L}, {Parent: 1, Bits: L}, {Parent: 0, Bits: core.BitsHeavy}, {Parent: 0, Bits: L}}}, 0)
	nodeOf := map[string]int{"a": 1, "b": 2, "dup-a": 1, "fail-c": 3, "forbidden": 4, "failtip-c": 3, "failupd-c": 3}
	if sc.Long > 0 {
		// nodes 1..4 as above (unused), then a linear chain n1..nK off genesis
		bn := []core.BNode{{}, {Parent: 0, Bits: L}, {Parent: 1, Bits: L}, {Parent: 0, Bits: core.BitsHeavy}, {Parent: 0, Bits: L}}
		for k := 0; k < sc.Long; k++ {
			parent := 0
			if k > 0 {
				parent = 4 + k
			}
			bn = append(bn, core.BNode{Parent: parent, Bits: core.BitsHeavy})
			nodeOf[fmt.Sprintf("n%d", k+1)] = 5 + k
		}
		u = core.Fabricate(core.Blueprint{Nodes: bn}, 0)
	}
	restore := core.SetForbidden(u.H[4])
	defer restore()
	s := NewSched(false)
	s.Bubble = true
	hang := &hangForever{release: make(chan struct{})}
	sinks := [3]*sink{{name: "webhook"}, {name: "websocket"}, {name: "recorder"}}
	var fr *failRepo
	rig := core.NewRig(core.RigOpts{
		WrapHeaders: func(h repository.Headers) repository.Headers {
			fr = &failRepo{Headers: h}
			fr.failHash = u.H[3].Hex()
			return fr
		},
		Cfg: func(c *config.AppConfig) { c.Webhook.MaxTries = 100 },
	})
	defer rig.Close()
	// production wiring of the channels (cmd/main.go), each behind a scheduling wrapper
	wh := notification.NewWebhooksService(rig.Repo.Webhooks, &c11client{s: s, sink: sinks[0], behave: sc.Behave[0], hang: hang}, core.Quiet(), rig.Cfg.Webhook)
	if _, err := wh.CreateWebhook("bearer", "", "tok", "http://hook.example/c11"); err != nil {
		rep.HarnessError("cannot register webhook: " + err.Error())
	}
	ws := notification.NewWebsocketChannel(core.Quiet(), &c11pub{s: s, sink: sinks[1], behave: sc.Behave[1], hang: hang}, rig.Cfg.Websocket)
	rig.Svc.Notifier.AddChannel(&wrapCh{s: s, name: "webhook", inner: wh})
	rig.Svc.Notifier.AddChannel(&wrapCh{s: s, name: "websocket", inner: ws})
	rig.Svc.Notifier.AddChannel(&wrapCh{s: s, name: "recorder", inner: &c11rec{s: s, sink: sinks[2], behave: sc.Behave[2], hang: hang}})
	var codes []string
	submitterDone := false
	s.Go("submitter", func() {
		for _, sym := range sc.History {
			s.Point("submit:" + sym)
			// (c competes with a: adding it looks up the tip and, being heavier, switches the chains)
			fr.failHash = ""
			switch sym {
			case "fail-c":
				fr.failHash = u.H[3].Hex()
			case "failtip-c":
				fr.failTip = true
			case "failupd-c":
				fr.failUpdate = true
			}
			res := core.SafeAdd(rig.Svc.Chains, u.Raw[nodeOf[sym]].Source())
			fr.failTip, fr.failUpdate = false, false
			codes = append(codes, res.Code())
		}
		submitterDone = true
	})
	viol := func(kind, what string, exp, obs any) {
		rep.Violate(core.Violation{Kind: kind, What: what, Replay: map[string]any{"engine": "schedwalk", "property": "C11", "scenario": sc, "schedule_prefix": prefix, "trace": append([]string{}, s.Trace...)}, Expected: exp, Observed: obs})
	}
	var pts []point
	last := -1
	pruned := false
	for step := 0; step < 200+10*sc.Long; step++ {
		en := s.Enabled(last)
		if len(en) == 0 {
			if s.Recheck() {
				continue
			}
			break
		}
		c := 0
		if step < len(prefix) {
			c = prefix[step]
			if c >= len(en) {
				rep.HarnessError(fmt.Sprintf("replay divergence in C11: choice %d of %d at step %d", c, len(en), step))
				c = 0
			}
		}
		pts = append(pts, point{enabled: en, chosen: c})
		last = en[c]
		s.Step(last)
		rep.Transitions++
		if seen != nil && step >= len(prefix) {
			k := s.Key() + "|" + fmt.Sprint(sinks[0].events, sinks[1].events, sinks[2].events)
			if seen[k] {
				rep.Outcome("pruned:state-seen")
				pruned = true
				break
			}
			seen[k] = true
		}
	}
	if pruned {
		close(hang.release)
		s.DrainAll()
		return pts
	}
	// the submitter must have finished in every schedule, hanging channels or not
	if !submitterDone {
		viol("ingestion_blocked", fmt.Sprintf("the submitter did not finish (threads left: %v)", s.Stuck()), "all submissions answered", codes)
	}
	// expected events: one per stored header, in the model
	want := map[string]string{}
	t := core.NewTree()
	t.Forbidden[u.H[4].Hex()] = true
	for i, sym := range sc.History {
		n := nodeOf[sym]
		if strings.HasPrefix(sym, "fail") {
			if sym != "fail-c" && (len(t.Order) < 2) {
				// (without a stored competitor the lookup / switch is not reached: the header is stored)
				out, m := t.Add(n, u.Raw[n])
				if out == core.OutStored {
					lab := t.Labels()[m.Hash]
					want[m.Hash] = fmt.Sprintf("ADD|%s|h%d|%s|v%d|%s|%s|n%d|t%d|w%s", m.Hash, m.Height, lab, m.Raw.Version, m.Raw.Merkle.Hex(), m.Prev, m.Raw.Nonce, m.Raw.Time, m.Cum)
				}
				continue
			}
			if i < len(codes) && codes[i] == "stored" {
				viol("failed_insert_reported_stored", "a submission whose insert failed was reported as stored", "error", codes[i])
			}
			continue
		}
		out, m := t.Add(n, u.Raw[n])
		if out == core.OutStored {
			lab := t.Labels()[m.Hash]
			want[m.Hash] = fmt.Sprintf("ADD|%s|h%d|%s|v%d|%s|%s|n%d|t%d|w%s", m.Hash, m.Height, lab, m.Raw.Version, m.Raw.Merkle.Hex(), m.Prev, m.Raw.Nonce, m.Raw.Time, m.Cum)
		}
	}
	for ci, sk := range sinks {
		got := map[string]int{}
		for _, e := range sk.events {
			got[e.Hash]++
			if w, ok := want[e.Hash]; !ok {
				viol("event_for_unstored/"+sk.name, "an event was emitted for a submission that stored nothing (duplicate, forbidden or failed)", nil, e.Fields)
			} else if e.Fields != w {
				viol("event_fields/"+sk.name, "event fields differ from the stored header", w, e.Fields)
			}
			// what the broker still holds when everything has been delivered must be what was published
			if e.raw != nil {
				if again, err := jsonFields(e.raw); err != nil || again.Fields != e.Fields {
					viol("event_payload_changed_after_publish/"+sk.name, "the bytes handed to the publisher for one event were overwritten afterwards (the broker's history and write queues hold that slice)", e.Fields, string(e.raw))
				}
			}
		}
		for h := range want {
			if got[h] != 1 {
				kind := "event_count/" + sk.name
				if got[h] == 0 {
					kind = "event_missing/" + sk.name
				}
				viol(kind, fmt.Sprintf("channel %s (behaviour %s; others %v) received %d events for stored header %s", sk.name, sc.Behave[ci], sc.Behave, got[h], h[:8]), 1, got[h])
			}
		}
	}
	close(hang.release)
	s.DrainAll()
	if ps := s.Panics(); len(ps) > 0 {
		viol("panic", ps[0], nil, ps)
	}
	return pts
}

func checkC11(t *testing.T, env core.Env, rep *core.Report) {
	rep.Rule = "one evaluation = one complete schedule of one scenario: a submission history (new header, child, duplicate, forbidden header, injected insert failure) x per-channel behaviour {ok, error, never returns} on the real Notifier with the real webhook service (SQL repository, scripted client), the real websocket channel (recording publisher) and a recording channel; threads = submitter + one delivery goroutine per (event, channel); non-trivial = some channel errors or never returns, or the history holds a submission that stores nothing; distinct by (scenario, schedule)"
	syms := []string{"a", "b", "dup-a", "forbidden", "fail-c"}
	var hists [][]string
	for _, x := range syms {
		hists = append(hists, []string{x})
		for _, y := range syms {
			hists = append(hists, []string{x, y})
		}
	}
	long := [][]string{{"a", "b", "dup-a"}, {"a", "forbidden", "b"}, {"fail-c", "a", "b"}, {"a", "dup-a", "b"}, {"b", "a", "b"},
		// storage failures in the middle of a competing submission (tip lookup; state switch)
		{"a", "failtip-c"}, {"a", "failupd-c"}, {"a", "b", "failupd-c"}, {"a", "failtip-c", "b"}}
	if env.Tier == "thorough" {
		// every history of length 3, all schedules (memoised) - until the deadline
		for _, x := range syms {
			for _, y := range syms {
				for _, z := range syms {
					hists = append(hists, []string{x, y, z})
				}
			}
		}
	}
	beh := []string{"ok", "error", "hang"}
	rep.Bound = "[all histories of length 1-2 over {a, b(child of a), dup-a, forbidden, fail-c} x all 27 per-channel behaviours {ok,error,never returns}: all schedules (memoised on global state); 5 histories of length 3 x 27 behaviours: preemption bound 1; 40 new headers x one channel never returning: one schedule each; thorough: additionally all 125 histories of length 3 x 27 behaviours, all schedules]"
	idx := 0
	var evals int64
	for hi, h := range append(hists, long...) {
		for _, b0 := range beh {
			for _, b1 := range beh {
				for _, b2 := range beh {
					idx++
					if !env.Mine(idx) || rep.Expired() {
						continue
					}
					sc := c11scenario{History: h, Behave: [3]string{b0, b1, b2}}
					bound := -1
					var seen map[string]bool
					if hi >= len(hists) {
						bound = 1
					} else {
						seen = map[string]bool{}
					}
					before := evals
					explore(func(prefix []int) []point {
						rep.Executions++
						if b0 != "ok" || b1 != "ok" || b2 != "ok" || strings.Contains(strings.Join(h, ","), "dup") || strings.Contains(strings.Join(h, ","), "f") {
							rep.DistinctNontrivial++
						}
						var pts []point
						synctest.Test(t, func(*testing.T) { pts = runC11(rep, sc, prefix, seen) })
						return pts
					}, bound, &evals, rep.Expired)
					rep.States++
					n := evals - before
					rep.Sample(func() any { return map[string]any{"scenario": sc, "schedules": n} })
				}
			}
		}
	}
	// long histories with one channel that never returns: one schedule each (the submitter runs
	// ahead, deliveries follow) - ingestion must finish and the healthy channels must get all events
	for ci := 0; ci < 3; ci++ {
		idx++
		if !env.Mine(idx) || rep.Expired() {
			continue
		}
		sc := c11scenario{Long: 40, Behave: [3]string{"ok", "ok", "ok"}}
		sc.Behave[ci] = "hang"
		for k := 1; k <= sc.Long; k++ {
			sc.History = append(sc.History, fmt.Sprintf("n%d", k))
		}
		rep.Executions++
		rep.DistinctNontrivial++
		rep.States++
		synctest.Test(t, func(*testing.T) { runC11(rep, sc, nil, nil) })
		evals++
		rep.Sample(func() any {
			return map[string]any{"scenario": "40 new headers, channel " + fmt.Sprint(ci) + " never returns", "schedules": 1}
		})
	}
	rep.Evaluations = evals
	_ = sort.Strings
}
