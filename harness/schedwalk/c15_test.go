package schedwalk

import (
	"fmt"
	"os"
	"sort"
	"strings"
	"testing"
	"testing/synctest"

	"github.com/bitcoin-sv/block-headers-service/domains"
	"github.com/bitcoin-sv/block-headers-service/internal/chaincfg/chainhash"
	"github.com/bitcoin-sv/block-headers-service/repository"
	"github.com/bitcoin-sv/block-headers-service/verifh/core"
)

func TestMain(m *testing.M) {
	code := m.Run()
	core.Cleanup()
	os.Exit(code)
}

// gateRepo puts a scheduling point in front of every repository.Headers call that ingestion and
// the readers make.
type gateRepo struct {
	repository.Headers
	s     *Sched
	armed *bool
}

func (g *gateRepo) p(op string) {
	if *g.armed {
		g.s.Point(op)
	}
}

func sumH(h *domains.BlockHeader, err error) string {
	if h == nil {
		return fmt.Sprint("nil/", err != nil)
	}
	return fmt.Sprintf("%s/%s/%d/%s", h.Hash.String()[:10], h.State, h.Height, h.CumulatedWork)
}

func sumL(hs []*domains.BlockHeader, err error) string {
	var out []string
	for _, h := range hs {
		out = append(out, sumH(h, nil))
	}
	sort.Strings(out)
	return strings.Join(out, ",") + fmt.Sprint("/", err != nil)
}

func (g *gateRepo) GetHeaderByHash(h string) (*domains.BlockHeader, error) {
	g.p("GetHeaderByHash")
	r, err := g.Headers.GetHeaderByHash(h)
	g.s.Observe(sumH(r, err))
	return r, err
}
func (g *gateRepo) GetHeaderByHeight(h int32) (*domains.BlockHeader, error) {
	g.p("GetHeaderByHeight")
	r, err := g.Headers.GetHeaderByHeight(h)
	g.s.Observe(sumH(r, err))
	return r, err
}
func (g *gateRepo) GetTip() (*domains.BlockHeader, error) {
	g.p("GetTip")
	r, err := g.Headers.GetTip()
	g.s.Observe(sumH(r, err))
	return r, err
}
func (g *gateRepo) GetStaleChainHeadersBackFrom(h string) ([]*domains.BlockHeader, error) {
	g.p("GetStaleChain")
	r, err := g.Headers.GetStaleChainHeadersBackFrom(h)
	g.s.Observe(sumL(r, err))
	return r, err
}
func (g *gateRepo) GetLongestChainHeadersFromHeight(h int32) ([]*domains.BlockHeader, error) {
	g.p("GetLongestFrom")
	r, err := g.Headers.GetLongestChainHeadersFromHeight(h)
	g.s.Observe(sumL(r, err))
	return r, err
}
func (g *gateRepo) UpdateState(hs []chainhash.Hash, st domains.HeaderState) error {
	g.p("UpdateState->" + string(st))
	err := g.Headers.UpdateState(hs, st)
	g.s.Observe(fmt.Sprint("upd/", err != nil))
	return err
}
func (g *gateRepo) AddHeaderToDatabase(h domains.BlockHeader) error {
	g.p("Insert")
	err := g.Headers.AddHeaderToDatabase(h)
	g.s.Observe(fmt.Sprint("ins/", err != nil))
	return err
}
func (g *gateRepo) GetHeaderByHeightRange(a, b int) ([]*domains.BlockHeader, error) {
	g.p("GetByHeightRange")
	r, err := g.Headers.GetHeaderByHeightRange(a, b)
	g.s.Observe(sumL(r, err))
	return r, err
}
func (g *gateRepo) GetAllTips() ([]*domains.BlockHeader, error) {
	g.p("GetAllTips")
	r, err := g.Headers.GetAllTips()
	g.s.Observe(sumL(r, err))
	return r, err
}

type point struct {
	enabled []int
	chosen  int
}

// explore enumerates schedules by replay with iterative preemption bounding: run(prefix) replays
// the prefix and then always continues the running thread (choice 0); alternatives at a point
// where the running thread is still enabled cost one preemption.
func explore(run func(prefix []int) []point, bound int, count *int64, expired func() bool) {
	var rec func(prefix []int, used int)
	rec = func(prefix []int, used int) {
		if expired() {
			return
		}
		pts := run(prefix)
		*count++
		for i := len(prefix); i < len(pts); i++ {
			p := pts[i]
			for alt := 1; alt < len(p.enabled); alt++ {
				cost := used
				// the first entry of enabled is the thread that ran last, if it is still enabled:
				// leaving it is a preemption
				if i > 0 && p.enabled[0] == pts[i-1].enabled[pts[i-1].chosen] {
					cost++
				}
				if bound >= 0 && cost > bound {
					continue
				}
				np := make([]int, 0, i+1)
				for k := 0; k < i; k++ {
					np = append(np, pts[k].chosen)
				}
				np = append(np, alt)
				rec(np, cost)
			}
		}
	}
	rec(nil, 0)
}

func structural(rows []core.Row) string {
	byH := map[string][]core.Row{}
	maxH := -1
	for _, r := range rows {
		if r.State == core.LLongest {
			byH[r.Height] = append(byH[r.Height], r)
			var h int
			fmt.Sscan(r.Height, &h)
			if h > maxH {
				maxH = h
			}
		}
	}
	prev := ""
	for h := 0; h <= maxH; h++ {
		l := byH[fmt.Sprint(h)]
		if len(l) != 1 {
			return fmt.Sprintf("%d longest-chain headers at height %d", len(l), h)
		}
		if h > 0 && l[0].Prev != prev {
			return fmt.Sprintf("longest-chain header at height %d does not link to the one below", h)
		}
		prev = l[0].Hash
	}
	if maxH < 0 {
		return "no longest-chain header"
	}
	return ""
}

type c15scenario struct {
	B      core.Blueprint `json:"blueprint"`
	BStr   string         `json:"blueprint_str"`
	Pre    []int          `json:"stored_before"`
	Adds   []int          `json:"concurrent_adds"`
	Reader string         `json:"reader,omitempty"` // "", tip, byheight, tips
}

func rowsKey(rows []core.Row) string {
	var s []string
	for _, r := range rows {
		s = append(s, r.String())
	}
	sort.Strings(s)
	return strings.Join(s, "\n")
}

func modelRows(t *core.Tree) string {
	l := t.Labels()
	var s []string
	for _, m := range t.Order {
		s = append(s, strings.Join([]string{m.Hash, fmt.Sprint(m.Height), fmt.Sprint(m.Raw.Version), m.Raw.Merkle.Hex(), fmt.Sprint(m.Raw.Nonce), fmt.Sprint(m.Raw.Bits), m.Work.String(), m.Prev, "", m.Cum.String()}, "|")+"|"+l[m.Hash])
	}
	sort.Strings(s)
	return strings.Join(s, "\n")
}

// rowsNoTime renders rows without the timestamp column (the model does not render SQLite's text form).
func rowsNoTime(rows []core.Row) string {
	var s []string
	for _, r := range rows {
		s = append(s, strings.Join([]string{r.Hash, r.Height, r.Version, r.Merkle, r.Nonce, r.Bits, r.Chainwork, r.Prev, "", r.Cum}, "|")+"|"+r.State)
	}
	sort.Strings(s)
	return strings.Join(s, "\n")
}

func permsOf(a []int) [][]int {
	if len(a) <= 1 {
		return [][]int{append([]int{}, a...)}
	}
	var out [][]int
	for i := range a {
		rest := append(append([]int{}, a[:i]...), a[i+1:]...)
		for _, p := range permsOf(rest) {
			out = append(out, append([]int{a[i]}, p...))
		}
	}
	return out
}

// runC15 executes one schedule of one scenario and checks it.
func runC15(rep *core.Report, sc c15scenario, u *core.Universe, prefix []int, outcomes map[string]bool, seen map[string]bool) []point {
	armed := false
	s := NewSched(false)
	rig := core.NewRig(core.RigOpts{WrapHeaders: func(h repository.Headers) repository.Headers { return &gateRepo{Headers: h, s: s, armed: &armed} }})
	defer rig.Close()
	for _, n := range sc.Pre {
		core.SafeAdd(rig.Svc.Chains, u.Raw[n].Source())
	}
	armed = true
	results := make([]string, len(sc.Adds))
	for i, n := range sc.Adds {
		i, n := i, n
		s.Go(fmt.Sprintf("add(%d)", n), func() {
			res := core.SafeAdd(rig.Svc.Chains, u.Raw[n].Source())
			results[i] = res.Code()
			if res.Panic != "" {
				panic(res.Panic)
			}
		})
	}
	var observedTips []string
	var readerSeen int
	if sc.Reader != "" {
		s.Go("reader:"+sc.Reader, func() {
			for k := 0; k < 2; k++ {
				switch sc.Reader {
				case "tip":
					if t := rig.Svc.Headers.GetTip(); t != nil {
						observedTips = append(observedTips, t.Hash.String()+"|"+string(t.State))
					} else {
						observedTips = append(observedTips, "nil|")
					}
				case "byheight":
					_, _ = rig.Svc.Headers.GetHeadersByHeight(0, 5)
				case "tips":
					_, _ = rig.Svc.Headers.GetTips()
				}
			}
		})
	}
	s.settle()
	viol := func(kind, what string, exp, obs any) {
		ch := []int{}
		rep.Violate(core.Violation{Kind: kind, What: what, Replay: map[string]any{"engine": "schedwalk", "property": "C15", "scenario": sc, "schedule_prefix": prefix, "trace": append([]string{}, s.Trace...), "choices": ch}, Expected: exp, Observed: obs})
	}
	var pts []point
	last := -1
	for step := 0; step < 500; step++ {
		en := s.Enabled(last)
		if len(en) == 0 {
			if s.Recheck() {
				continue
			}
			break
		}
		c := 0
		if step < len(prefix) {
			c = prefix[step]
			if c >= len(en) {
				rep.HarnessError(fmt.Sprintf("replay divergence: choice %d of %d enabled at step %d (%s)", c, len(en), step, sc.BStr))
				c = 0
			}
		}
		pts = append(pts, point{enabled: en, chosen: c})
		last = en[c]
		s.Step(last)
		rep.Transitions++
		// invariant at every scheduling point
		rows := core.DumpHeaders(rig.DB)
		if why := structural(rows); why != "" {
			viol("invariant.structure", "at a scheduling point: "+why, nil, s.Trace)
			s.Drain()
			return pts
		}
		if seen != nil && step >= len(prefix) {
			// global state = store + every thread's progress and everything it has read; a state
			// seen before has been expanded completely (unbounded search), so this execution ends here
			k := core.Digest(rows) + "#" + s.Key()
			if seen[k] {
				rep.Outcome("pruned:state-seen")
				s.Drain()
				return pts
			}
			seen[k] = true
		}
		for readerSeen < len(observedTips) {
			ot := strings.Split(observedTips[readerSeen], "|")
			readerSeen++
			okTip := false
			for _, r := range rows {
				if r.Hash == ot[0] && r.State == core.LLongest {
					okTip = true
				}
			}
			if !okTip || ot[1] != core.LLongest {
				viol("reader.tip_not_longest", "a reader observed a tip that is not a longest-chain header of the store at that moment", "LONGEST_CHAIN", observedTips[readerSeen-1])
			}
		}
	}
	if ps := s.Panics(); len(ps) > 0 {
		viol("panic", "a thread panicked: "+ps[0], nil, ps)
	}
	if !s.AllDone() {
		viol("deadlock", fmt.Sprintf("threads %v never finished (no enabled thread)", s.Stuck()), nil, s.Trace)
		return pts
	}
	// final store = some sequential order of the same submissions
	final := core.DumpHeaders(rig.DB)
	got := rowsNoTime(final)
	match := ""
	for _, order := range permsOf(sc.Adds) {
		t := core.ModelOf(u, 0, append(append([]int{}, sc.Pre...), order...))
		if modelRows(t) == got {
			match = fmt.Sprint(order)
			break
		}
	}
	outcomes[got] = true
	if match == "" {
		kind := "not_serializable"
		if why := structural(final); why != "" {
			kind = "not_serializable.structure"
		}
		viol(kind, "the final store equals no sequential order of the same submissions", "one of the sequential outcomes", strings.Split(got, "\n"))
	}
	return pts
}

func TestCheck(t *testing.T) {
	env := core.GetEnv()
	rep := core.NewReport(env, "schedwalk")
	defer func() { rep.Write(env.Out) }()
	if env.Replay != "" {
		replaySched(t, env, rep)
		return
	}
	switch env.Prop {
	case "C15":
		checkC15(t, env, rep)
	case "C11":
		checkC11(t, env, rep)
	default:
		t.Fatalf("unknown VERIF_PROP %q", env.Prop)
	}
}

func checkC15(t *testing.T, env core.Env, rep *core.Report) {
	rep.Rule = "one evaluation = one complete interleaving (schedule) of one scenario: 2 concurrent Chains.Add calls (every unordered pair of nodes of every blueprint, incl. the same header twice) on a store holding the remaining nodes or not, optionally with a reader thread; scheduling points = entries of repository.Headers methods; non-trivial = the schedule has at least one preemption; distinct by (scenario, schedule)"
	n := 3
	if env.Tier == "thorough" {
		n = 4
	}
	rep.Bound = fmt.Sprintf("[2 submitters: all interleavings (unbounded) for every blueprint N=%d |W|=2 x every pair (x,y), x==y included, remaining nodes stored before or absent; thorough: N=4 and additionally 3 concurrent submitters] [2 submitters + 1 reader (tip | byheight | tips, two reads): preemption bound 2 on the fork/reorg blueprints]", n)
	var evals int64
	idx := 0
	distinct := 0
	core.EnumBlueprints(n, core.WAlphabet(2), func(_ int, b core.Blueprint) {
		idx++
		if !env.Mine(idx) || rep.Expired() {
			return
		}
		u := core.Fabricate(b, 0)
		for x := 1; x <= n; x++ {
			for y := x; y <= n; y++ {
				var others []int
				for z := 1; z <= n; z++ {
					if z != x && z != y {
						others = append(others, z)
					}
				}
				pres := [][]int{nil}
				if len(others) > 0 {
					pres = append(pres, others)
				}
				type variant struct {
					pre, adds []int
				}
				var vs []variant
				for _, pre := range pres {
					vs = append(vs, variant{pre, []int{x, y}})
				}
				if env.Tier == "thorough" && x == 1 && y == 2 {
					// three concurrent submitters: the first three nodes at once, the rest stored or absent
					var rest []int
					for z := 4; z <= n; z++ {
						rest = append(rest, z)
					}
					vs = append(vs, variant{nil, []int{1, 2, 3}})
					if len(rest) > 0 {
						vs = append(vs, variant{rest, []int{1, 2, 3}})
					}
				}
				for _, v := range vs {
					pre, adds := v.pre, v.adds
					readers := []string{""}
					if forky(b) && len(pre) > 0 {
						readers = append(readers, "tip", "byheight", "tips")
					}
					for _, rd := range readers {
						sc := c15scenario{B: b, BStr: b.String(), Pre: pre, Adds: adds, Reader: rd}
						bound := -1
						if rd != "" {
							bound = 2
						}
						outcomes := map[string]bool{}
						var seen map[string]bool
						if bound < 0 {
							seen = map[string]bool{}
						}
						before := evals
						explore(func(prefix []int) []point {
							rep.Executions++
							pts := runC15(rep, sc, u, prefix, outcomes, seen)
							pre := 0
							for i := 1; i < len(pts); i++ {
								if pts[i].enabled[pts[i].chosen] != pts[i-1].enabled[pts[i-1].chosen] && contains(pts[i].enabled, pts[i-1].enabled[pts[i-1].chosen]) {
									pre++
								}
							}
							if pre > 0 {
								rep.DistinctNontrivial++
							}
							return pts
						}, bound, &evals, rep.Expired)
						rep.States++
						distinct += len(outcomes)
						rep.Outcome(fmt.Sprintf("distinct-final-stores:%d", len(outcomes)))
						sched := evals - before
						rep.Sample(func() any {
							return map[string]any{"scenario": sc, "schedules": sched, "distinct_final_stores": len(outcomes)}
						})
					}
				}
			}
		}
	})
	rep.Evaluations = evals
	rep.Extra["sum_distinct_final_stores"] = distinct
	if env.ShardI == 0 {
		racePass(rep)
	}
}

func contains(a []int, x int) bool {
	for _, v := range a {
		if v == x {
			return true
		}
	}
	return false
}

func forky(b core.Blueprint) bool {
	cnt := map[int]int{}
	for i := 1; i <= b.N(); i++ {
		if p := b.Nodes[i].Parent; p >= 0 {
			cnt[p]++
			if cnt[p] > 1 {
				return true
			}
		}
	}
	return false
}

// replaySched re-executes exactly one recorded schedule of C15 / C11 (three times: the
// observations must be identical).
func replaySched(t *testing.T, env core.Env, rep *core.Report) {
	rep.Bound = "replay of " + env.Replay
	if env.Prop == "C15" {
		var rf struct {
			Replay struct {
				Scenario c15scenario `json:"scenario"`
				Prefix   []int       `json:"schedule_prefix"`
			} `json:"replay"`
		}
		core.ReadJSON(env.Replay, &rf)
		u := core.Fabricate(rf.Replay.Scenario.B, 0)
		for i := 0; i < 3; i++ {
			before := fmt.Sprint(rep.ViolationCounts)
			r := rep
			if i > 0 {
				r = core.NewReport(env, "schedwalk")
			}
			runC15(r, rf.Replay.Scenario, u, rf.Replay.Prefix, map[string]bool{}, nil)
			rep.Executions++
			if i > 0 {
				rep.Rechecked++
				if fmt.Sprint(r.ViolationCounts) != fmt.Sprint(rep.ViolationCounts) {
					rep.HarnessError("replay is not deterministic: " + before)
				}
			}
		}
		rep.Evaluations, rep.States = 1, 1
		return
	}
	var rf struct {
		Replay struct {
			Scenario c11scenario `json:"scenario"`
			Prefix   []int       `json:"schedule_prefix"`
		} `json:"replay"`
	}
	core.ReadJSON(env.Replay, &rf)
	for i := 0; i < 3; i++ {
		r := rep
		if i > 0 {
			r = core.NewReport(env, "schedwalk")
		}
		synctest.Test(t, func(*testing.T) { runC11(r, rf.Replay.Scenario, rf.Replay.Prefix, nil) })
		rep.Executions++
		if i > 0 {
			rep.Rechecked++
			if fmt.Sprint(r.ViolationCounts) != fmt.Sprint(rep.ViolationCounts) {
				rep.HarnessError("replay is not deterministic")
			}
		}
	}
	rep.Evaluations, rep.States = 1, 1
}
