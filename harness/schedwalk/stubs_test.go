package schedwalk

import (
	"testing"

	"github.com/bitcoin-sv/block-headers-service/verifh/core"
)

func checkC11(t *testing.T, env core.Env, rep *core.Report) { t.Skip("see c11_test.go") }

func racePass(rep *core.Report) {}
