package schedwalk

import "github.com/bitcoin-sv/block-headers-service/verifh/core"

func racePass(rep *core.Report) {}
