// Package schedwalk is engine E4: every interleaving of a few threads at storage-operation
// granularity. Threads run only when the explorer opens their gate; scheduling points are the
// entries of repository.Headers methods (decorator) and of the harness's notification channels.
package schedwalk

import (
	"bytes"
	"fmt"
	"runtime"
	"strconv"
	"sync"
	"testing/synctest"
	"time"
)

func gid() uint64 {
	var buf [64]byte
	n := runtime.Stack(buf[:], false)
	// "goroutine 123 [running]:"
	f := bytes.Fields(buf[:n])
	id, _ := strconv.ParseUint(string(f[1]), 10, 64)
	return id
}

type thread struct {
	id       int
	name     string
	gid      uint64
	gate     chan struct{}
	at       string // operation it is parked before ("" = not at a gate)
	done     bool
	blocked  bool // parked on a lock held by another thread
	running  bool // released and not yet settled
	arrived  chan string
	finished chan struct{}
	panicked string
	closed   bool   // finished was closed (spawned goroutines only)
	hung     bool   // blocked for good by the harness (a channel that never returns)
	ops      int    // scheduling points passed
	obs      uint64 // hash of everything the thread has read so far
}

// Sched is one execution's cooperative scheduler.
type Sched struct {
	mu      sync.Mutex
	threads []*thread
	byGid   map[uint64]*thread
	Trace   []string
	free    bool // free-running mode (race pass): gates are open
	// SpawnedBy, if set, names the function whose "go" statements create threads the scheduler
	// must wait for (they register at their first scheduling point): settle does not return while
	// a goroutine created there has not reached its point yet.
	SpawnedBy string
	// Bubble: the execution runs inside a testing/synctest bubble; quiescence is synctest.Wait
	// (every goroutine durably blocked), which also covers goroutines the code under test spawns.
	Bubble bool
}

// NewSched returns a scheduler.
func NewSched(free bool) *Sched { return &Sched{byGid: map[uint64]*thread{}, free: free} }

// Go starts a controlled thread; it runs until its first scheduling point.
func (s *Sched) Go(name string, body func()) {
	t := &thread{id: len(s.threads), name: name, gate: make(chan struct{}), arrived: make(chan string, 1), finished: make(chan struct{})}
	s.mu.Lock()
	s.threads = append(s.threads, t)
	s.mu.Unlock()
	t.running = true
	go func() {
		g := gid()
		s.mu.Lock()
		t.gid = g
		s.byGid[g] = t
		s.mu.Unlock()
		defer func() {
			if p := recover(); p != nil {
				t.panicked = fmt.Sprint(p)
			}
			close(t.finished)
		}()
		body()
	}()
	if !s.free {
		s.settle()
	}
}

// Point is a scheduling point: the calling goroutine parks until the explorer opens its gate.
// A goroutine the scheduler has not seen (spawned by the code under test) becomes a new thread.
func (s *Sched) Point(op string) {
	if s.free {
		runtime.Gosched()
		return
	}
	g := gid()
	s.mu.Lock()
	t := s.byGid[g]
	if t == nil {
		t = &thread{id: len(s.threads), name: "spawned", gid: g, gate: make(chan struct{}), arrived: make(chan string, 1), finished: make(chan struct{}), running: true}
		s.threads = append(s.threads, t)
		s.byGid[g] = t
		s.mu.Unlock()
		// a spawned goroutine has no wrapper: it is "finished" when it never comes back to a point;
		// the harness bodies that spawn call Done() themselves
	} else {
		if t.name == "spawned" && t.closed {
			// the same goroutine comes back after a delivery it had finished (sequential fan-out)
			t.finished = make(chan struct{})
			t.closed, t.done = false, false
		}
		s.mu.Unlock()
	}
	t.arrived <- op
	<-t.gate
}

// Observe folds a value the current thread has read into its local-state hash (for state keys).
func (s *Sched) Observe(v string) {
	if s.free {
		return
	}
	g := gid()
	s.mu.Lock()
	t := s.byGid[g]
	s.mu.Unlock()
	if t == nil {
		return
	}
	h := t.obs ^ 1469598103934665603
	for i := 0; i < len(v); i++ {
		h ^= uint64(v[i])
		h *= 1099511628211
	}
	t.obs = h
}

// Key is the scheduler's part of a global state key: per thread its progress and what it has
// read so far (its future behaviour is a function of those).
func (s *Sched) Key() string {
	s.mu.Lock()
	defer s.mu.Unlock()
	out := ""
	for _, t := range s.threads {
		out += fmt.Sprintf("%d:%d:%x:%v:%s;", t.id, t.ops, t.obs, t.done, t.at)
	}
	return out
}

// Block tells the scheduler that the calling thread is about to block for good (the harness is
// playing a channel that never returns); the thread stays disabled.
func (s *Sched) Block() {
	if s.free {
		return
	}
	g := gid()
	s.mu.Lock()
	t := s.byGid[g]
	s.mu.Unlock()
	if t != nil {
		t.arrived <- "#hung"
	}
}

// DrainAll runs every remaining thread to completion, including threads that were hung and
// have been released by the harness.
func (s *Sched) DrainAll() {
	for round := 0; round < 100; round++ {
		s.mu.Lock()
		ts := append([]*thread{}, s.threads...)
		s.mu.Unlock()
		for _, t := range ts {
			if t.hung && !t.done {
				t.hung, t.running = false, true
			}
		}
		s.settle()
		s.Drain()
		if s.AllDone() {
			return
		}
		if len(s.Enabled(-1)) == 0 {
			time.Sleep(time.Millisecond)
		}
	}
}

// Done marks a spawned goroutine as finished (called by harness channel implementations).
func (s *Sched) Done() {
	if s.free {
		return
	}
	g := gid()
	s.mu.Lock()
	t := s.byGid[g]
	s.mu.Unlock()
	// only goroutines the code under test spawned end this way; a delivery running inside a
	// controlled thread (synchronous fan-out) ends with that thread
	if t != nil && t.name == "spawned" && !t.closed {
		t.closed = true
		close(t.finished)
	}
}

// goroutineStates parses an all-goroutine dump: gid -> wait reason.
func goroutineStates() map[uint64]string {
	buf := make([]byte, 1<<20)
	n := runtime.Stack(buf, true)
	out := map[uint64]string{}
	for _, block := range bytes.Split(buf[:n], []byte("\n\n")) {
		if !bytes.HasPrefix(block, []byte("goroutine ")) {
			continue
		}
		line := block
		if i := bytes.IndexByte(block, '\n'); i >= 0 {
			line = block[:i]
		}
		f := bytes.Fields(line)
		if len(f) < 3 {
			continue
		}
		id, _ := strconv.ParseUint(string(f[1]), 10, 64)
		st := string(bytes.Trim(bytes.Join(f[2:], []byte(" ")), "[]:"))
		out[id] = st
	}
	return out
}

// settle waits until every released thread is parked at a gate, finished, or blocked on a lock
// held by a parked thread. Threads that were blocked are re-examined after every step, because
// the step may have released the lock they wait for.
func (s *Sched) settle() {
	if s.Bubble {
		synctest.Wait()
		s.mu.Lock()
		ts := append([]*thread{}, s.threads...)
		s.mu.Unlock()
		for _, t := range ts {
			select {
			case op := <-t.arrived:
				if op == "#hung" {
					t.hung, t.running = true, false
				} else {
					t.at, t.running, t.done = op, false, false
				}
			case <-t.finished:
				if t.at == "" {
					t.done, t.running = true, false
				}
			default:
			}
		}
		return
	}
	for {
		s.mu.Lock()
		ts := append([]*thread{}, s.threads...)
		s.mu.Unlock()
		for _, t := range ts {
			if t.blocked {
				t.blocked, t.running = false, true
			}
		}
		for _, t := range ts {
			for t.running {
				select {
				case op := <-t.arrived:
					if op == "#hung" {
						t.hung, t.running = true, false
					} else {
						t.at, t.running = op, false
					}
				case <-t.finished:
					t.done, t.running = true, false
				case <-time.After(300 * time.Microsecond):
					// neither arrived nor finished for a long time: is it waiting for a lock?
					if !lockWait(goroutineStates()[t.gid]) {
						continue
					}
					// a lock wait that is over within a millisecond is ordinary contention inside the
					// driver, not a wait for a lock held by a parked thread: look twice
					select {
					case op := <-t.arrived:
						t.at, t.running = op, false
						continue
					case <-t.finished:
						t.done, t.running = true, false
						continue
					case <-time.After(time.Millisecond):
					}
					if lockWait(goroutineStates()[t.gid]) {
						select {
						case op := <-t.arrived:
							t.at, t.running = op, false
						case <-t.finished:
							t.done, t.running = true, false
						default:
							t.running, t.blocked = false, true
						}
					}
				}
			}
		}
		s.mu.Lock()
		same := len(ts) == len(s.threads)
		s.mu.Unlock()
		if same && !s.spawnPending() {
			return
		}
		if same {
			time.Sleep(20 * time.Microsecond)
		}
	}
}

// spawnPending reports whether a goroutine created by SpawnedBy exists that the scheduler has not
// registered yet (it is on its way to its first scheduling point).
func (s *Sched) spawnPending() bool {
	if s.SpawnedBy == "" {
		return false
	}
	buf := make([]byte, 1<<20)
	n := runtime.Stack(buf, true)
	for _, block := range bytes.Split(buf[:n], []byte("\n\n")) {
		if !bytes.HasPrefix(block, []byte("goroutine ")) || !bytes.Contains(block, []byte("created by "+s.SpawnedBy)) {
			continue
		}
		// a goroutine that already is inside the harness beyond the wrapper (parked at a point,
		// inside a sink, possibly left over from an earlier execution) is not "on its way"
		past := false
		for _, ln := range bytes.Split(block, []byte("\n")) {
			if bytes.Contains(ln, []byte("verifh/schedwalk.")) && !bytes.Contains(ln, []byte("(*wrapCh).Notify")) {
				past = true
			}
		}
		if past {
			continue
		}
		f := bytes.Fields(block[:bytes.IndexByte(block, '\n')])
		id, _ := strconv.ParseUint(string(f[1]), 10, 64)
		s.mu.Lock()
		_, known := s.byGid[id]
		s.mu.Unlock()
		if !known {
			return true
		}
	}
	return false
}

func lockWait(st string) bool {
	return len(st) >= 10 && (st[:10] == "sync.Mutex" || st[:10] == "sync.RWMut" || st[:10] == "semacquire")
}

// Recheck gives threads believed to be blocked one more, patient look (before a deadlock is
// declared); reports whether any of them turned out to be parked at a gate or finished.
func (s *Sched) Recheck() bool {
	changed := false
	s.mu.Lock()
	ts := append([]*thread{}, s.threads...)
	s.mu.Unlock()
	for _, t := range ts {
		if !t.blocked {
			continue
		}
		select {
		case op := <-t.arrived:
			t.at, t.blocked, changed = op, false, true
		case <-t.finished:
			t.done, t.blocked, changed = true, false, true
		case <-time.After(100 * time.Millisecond):
		}
	}
	return changed
}

// Enabled lists threads parked at a gate, in canonical order: the last run thread first.
func (s *Sched) Enabled(last int) []int {
	var out []int
	s.mu.Lock()
	defer s.mu.Unlock()
	if last >= 0 && last < len(s.threads) && s.threads[last].at != "" && !s.threads[last].done {
		out = append(out, last)
	}
	for _, t := range s.threads {
		if t.id != last && t.at != "" && !t.done {
			out = append(out, t.id)
		}
	}
	return out
}

// Step opens one thread's gate and waits for the system to settle.
func (s *Sched) Step(id int) {
	s.mu.Lock()
	t := s.threads[id]
	s.mu.Unlock()
	s.Trace = append(s.Trace, fmt.Sprintf("%s:%s", t.name, t.at))
	t.at = ""
	t.ops++
	t.running = true
	t.gate <- struct{}{}
	s.settle()
}

// AllDone reports whether every thread has finished.
func (s *Sched) AllDone() bool {
	s.mu.Lock()
	defer s.mu.Unlock()
	for _, t := range s.threads {
		if !t.done {
			return false
		}
	}
	return true
}

// Stuck lists threads that are neither done nor enabled (deadlock / blocked forever).
func (s *Sched) Stuck() []string {
	var out []string
	s.mu.Lock()
	defer s.mu.Unlock()
	for _, t := range s.threads {
		if !t.done && t.at == "" {
			out = append(out, t.name)
		}
	}
	return out
}

// Panics lists panics raised inside controlled threads.
func (s *Sched) Panics() []string {
	var out []string
	for _, t := range s.threads {
		if t.panicked != "" {
			out = append(out, t.name+": "+t.panicked)
		}
	}
	return out
}

// Drain lets every remaining thread run to completion (used on abandoned executions).
func (s *Sched) Drain() {
	for i := 0; i < 10000; i++ {
		en := s.Enabled(-1)
		if len(en) == 0 {
			return
		}
		s.Step(en[0])
	}
}
