//go:build verif

package p2p

import (
	"net"
	"sync"
	"time"

	"github.com/bitcoin-sv/block-headers-service/config"
	"github.com/bitcoin-sv/block-headers-service/service"
	"github.com/bitcoin-sv/block-headers-service/transports/p2p/addrmgr"
	"github.com/bitcoin-sv/block-headers-service/transports/p2p/connmgr"
	"github.com/bitcoin-sv/block-headers-service/transports/p2p/p2psync"
	"github.com/bitcoin-sv/block-headers-service/transports/p2p/peer"
	"github.com/rs/zerolog"
)

// VerifServer is the real legacy server built exactly as newServer does, minus listeners and
// minus an address source for the connection manager (peers are "dialled" by the harness
// through the real outboundPeerConnected / inboundPeerConnected).
type VerifServer struct {
	S   *server
	log *zerolog.Logger
}

// VerifNewServer mirrors newServer.
func VerifNewServer(services *service.Services, peers map[*peer.Peer]*peer.SyncState, p2pCfg *config.P2PConfig, log *zerolog.Logger) (*VerifServer, error) {
	s := server{
		startupTime:       time.Now().Unix(),
		chainParams:       config.ActiveNetParams,
		addrManager:       addrmgr.New(p2pCfg.BsvdLookup, log),
		newPeers:          make(chan *serverPeer, config.MaxPeers),
		donePeers:         make(chan *serverPeer, config.MaxPeers),
		banPeers:          make(chan *peer.Peer, config.MaxPeers),
		query:             make(chan interface{}),
		relayInv:          make(chan relayMsg, config.MaxPeers),
		broadcast:         make(chan broadcastMsg, config.MaxPeers),
		quit:              make(chan struct{}),
		peerHeightsUpdate: make(chan updatePeerHeightsMsg),
		timeSource:        config.TimeSource,
		wireServices:      defaultServices,
		p2pConfig:         p2pCfg,
		log:               log,
	}
	var err error
	s.syncManager, err = p2psync.New(&p2psync.Config{
		PeerNotifier:              &s,
		ChainParams:               s.chainParams,
		DisableCheckpoints:        p2pCfg.DisableCheckpoints,
		MaxPeers:                  config.MaxPeers,
		MinSyncPeerNetworkSpeed:   config.MinSyncPeerNetworkSpeed,
		BlocksForForkConfirmation: p2pCfg.BlocksForForkConfirmation,
		Logger:                    log,
		Services:                  services,
		Checkpoints:               config.Checkpoints,
	}, peers)
	if err != nil {
		return nil, err
	}
	s.connManager, err = connmgr.New(&connmgr.Config{
		OnAccept:      s.inboundPeerConnected,
		RetryDuration: connectionRetryInterval,
		Dial:          p2pCfg.BsvdDial,
		OnConnection:  s.outboundPeerConnected,
		BanAddress:    s.addrManager.BanAddress,
		Logger:        log,
	})
	if err != nil {
		return nil, err
	}
	return &VerifServer{S: &s, log: log}, nil
}

// Start starts the real peer handler (and with it the sync manager's block handler).
func (v *VerifServer) Start() error { return v.S.Start() }

// Shutdown stops the server.
func (v *VerifServer) Shutdown() error {
	// (the registries must not keep finished servers alive)
	verifStates.Delete(v.S)
	connmgr.VerifForget(v.S.connManager)
	return v.S.Shutdown()
}

// DialOut hands an established connection to the server as an outbound peer.
func (v *VerifServer) DialOut(conn net.Conn, addr *net.TCPAddr) {
	v.S.outboundPeerConnected(&connmgr.ConnReq{Addr: addr}, conn, v.log)
}

// Accept hands an established connection to the server as an inbound peer.
func (v *VerifServer) Accept(conn net.Conn) { v.S.inboundPeerConnected(conn, v.log) }

// Sync exposes the sync manager for state dumps.
func (v *VerifServer) Sync() *p2psync.SyncManager { return v.S.syncManager }

// ConnectedCount is the server's own peer count query.
func (v *VerifServer) ConnectedCount() int32 { return v.S.ConnectedCount() }

// verifStates maps a running server to its peer handler's private peerState (stored by a
// one-line overlay rewrite of peerHandler).
var verifStates sync.Map

// Banned reports the server's ban table as host -> remaining seconds (negative = run out but
// not yet removed). Only to be called while the peer handler is idle (synctest.Wait).
func (v *VerifServer) Banned() map[string]int {
	out := map[string]int{}
	st, ok := verifStates.Load(v.S)
	if !ok {
		return out
	}
	for h, end := range st.(*peerState).banned {
		out[h] = int(time.Until(end) / time.Second)
	}
	return out
}
