//go:build verif

package p2psync

import (
	"fmt"
	"sort"
	"strings"
	"time"

	"github.com/bitcoin-sv/block-headers-service/internal/chaincfg"
	"github.com/bitcoin-sv/block-headers-service/internal/chaincfg/chainhash"
	"github.com/bitcoin-sv/block-headers-service/internal/wire"
	"github.com/bitcoin-sv/block-headers-service/service"
	peerpkg "github.com/bitcoin-sv/block-headers-service/transports/p2p/peer"
	"github.com/rs/zerolog"
)

// VerifNotifier records what the sync manager tells the server about peers.
type VerifNotifier struct {
	Banned []*peerpkg.Peer
}

// UpdatePeerHeights implements PeerNotifier.
func (n *VerifNotifier) UpdatePeerHeights(*chainhash.Hash, int32, *peerpkg.Peer) {}

// RelayInventory implements PeerNotifier.
func (n *VerifNotifier) RelayInventory(*wire.InvVect, interface{}) {}

// BanPeer implements PeerNotifier.
func (n *VerifNotifier) BanPeer(p *peerpkg.Peer) { n.Banned = append(n.Banned, p) }

// VerifHeadersDriver hands headers batches to the real handleHeadersMsg of a SyncManager
// that is in headers-first mode with one registered, unconnected peer (messages queued to an
// unconnected peer are dropped by Peer.QueueMessage, so no network is involved).
type VerifHeadersDriver struct {
	SM       *SyncManager
	Peer     *peerpkg.Peer
	Notifier *VerifNotifier
}

// VerifNewHeadersDriver builds the driver.
func VerifNewHeadersDriver(svc *service.Services, params *chaincfg.Params, checkpoints []chaincfg.Checkpoint, log *zerolog.Logger) *VerifHeadersDriver {
	n := &VerifNotifier{}
	p, err := peerpkg.NewOutboundPeer(&peerpkg.Config{ChainParams: params, Log: log}, "10.0.0.1:8333")
	if err != nil {
		panic(err)
	}
	sm := &SyncManager{
		log:              log,
		peerNotifier:     n,
		chainParams:      params,
		msgChan:          make(chan interface{}, 8),
		quit:             make(chan struct{}),
		peerStates:       map[*peerpkg.Peer]*peerpkg.SyncState{p: {SyncCandidate: true}},
		headersFirstMode: true,
		checkpoints:      checkpoints,
		Services:         svc,
	}
	sm.nextCheckpoint = sm.findNextHeaderCheckpoint(svc.Headers.GetTipHeight())
	sm.syncPeer = p
	sm.syncPeerState = &syncPeerState{}
	return &VerifHeadersDriver{SM: sm, Peer: p, Notifier: n}
}

// Deliver runs the real handler on one headers message.
func (d *VerifHeadersDriver) Deliver(hs []*wire.BlockHeader) {
	d.SM.handleHeadersMsg(&headersMsg{headers: &wire.MsgHeaders{Headers: hs}, peer: d.Peer})
}

// PeerDisconnected reports whether the handler disconnected the peer.
func (d *VerifHeadersDriver) PeerDisconnected() bool { return peerpkg.VerifDisconnectCalled(d.Peer) }

// VerifDump renders the private sync state that the handlers read (for canonical state keys).
// Only call it while the block handler is idle (after a quiescence barrier).
func VerifDump(sm *SyncManager) map[string]any {
	out := map[string]any{"headersFirst": sm.headersFirstMode, "peers": len(sm.peerStates)}
	if sm.nextCheckpoint != nil {
		out["nextCheckpoint"] = sm.nextCheckpoint.Height
	} else {
		out["nextCheckpoint"] = -1
	}
	if sm.syncPeer != nil {
		out["syncPeer"] = sm.syncPeer.Addr()
		out["violations"] = sm.syncPeerState.violations
		// (what handleCheckSyncPeer decides on besides the violations)
		out["syncPeerFresh"] = sm.syncPeerState.ticks == 0
		out["sinceLastBlock"] = int(time.Since(sm.syncPeerState.lastBlockTime) / time.Second)
	} else {
		out["syncPeer"] = ""
	}
	cand := 0
	var per []string
	for p, st := range sm.peerStates {
		if st.SyncCandidate {
			cand++
		}
		// the service's view of each peer: candidate flag and the height it believes the peer has
		per = append(per, fmt.Sprintf("%s:c=%v,h=%d", p.Addr(), st.SyncCandidate, p.LastBlock()))
	}
	sort.Strings(per)
	out["candidates"] = cand
	out["peerView"] = strings.Join(per, ";")
	return out
}
