//go:build verif

package connmgr

import (
	"fmt"
	"sort"
	"sync"
	"sync/atomic"
)

// VerifFailures returns the failure counters of the connection manager.
func VerifFailures(cm *ConnManager) (global uint64, perAddr map[string]uint16) {
	cm.failedAttemptsMutex.RLock()
	defer cm.failedAttemptsMutex.RUnlock()
	perAddr = map[string]uint16{}
	for k, v := range cm.failedAttempts {
		perAddr[k] = v
	}
	return cm.globalFailedAttempts, perAddr
}

// verifMaps maps a connection manager to its handler's private pending/conns maps (stored by a
// one-line overlay rewrite of connHandler).
var verifMaps sync.Map

// VerifHandlerState describes the handler's private maps: how many requests are registered as
// pending, how many connections it counts as established, and the sorted retry counts and
// states of the pending requests. Only to be called while the handler is idle.
func VerifHandlerState(cm *ConnManager) string {
	v, ok := verifMaps.Load(cm)
	if !ok {
		return "?"
	}
	m := v.([2]map[uint64]*ConnReq)
	var ps []string
	for _, c := range m[0] {
		ps = append(ps, fmt.Sprintf("%v/r%d/p%v", c.State(), atomic.LoadUint32(&c.retryCount), c.Permanent))
	}
	sort.Strings(ps)
	return fmt.Sprintf("pending=%v conns=%d", ps, len(m[1]))
}

// VerifForget drops the manager from the registry (call after Stop).
func VerifForget(cm *ConnManager) { verifMaps.Delete(cm) }
