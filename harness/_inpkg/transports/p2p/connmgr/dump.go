//go:build verif

package connmgr

// VerifFailures returns the failure counters of the connection manager.
func VerifFailures(cm *ConnManager) (global uint64, perAddr map[string]uint16) {
	cm.failedAttemptsMutex.RLock()
	defer cm.failedAttemptsMutex.RUnlock()
	perAddr = map[string]uint16{}
	for k, v := range cm.failedAttempts {
		perAddr[k] = v
	}
	return cm.globalFailedAttempts, perAddr
}
