//go:build verif

package p2p

import (
	"fmt"
	"time"

	"github.com/bitcoin-sv/block-headers-service/config"
	"github.com/bitcoin-sv/block-headers-service/transports/p2p/peer"
	"github.com/rs/zerolog"
)

// VerifBook drives the real handleAddPeerMsg / handleDonePeerMsg / handleBanPeerMsg on a real
// peerState, the way peerHandler does (one call at a time).
type VerifBook struct {
	s    *server
	st   *peerState
	sps  []*serverPeer
	log  *zerolog.Logger
	next int32
}

// VerifNewBook builds the book.
func VerifNewBook(banDuration time.Duration, log *zerolog.Logger) *VerifBook {
	cfg := &config.P2PConfig{BanDuration: banDuration}
	return &VerifBook{
		s:   &server{p2pConfig: cfg, log: log},
		log: log,
		st: &peerState{
			inboundPeers:    make(map[int32]*serverPeer),
			persistentPeers: make(map[int32]*serverPeer),
			outboundPeers:   make(map[int32]*serverPeer),
			banned:          make(map[string]time.Time),
			outboundGroups:  make(map[string]int),
			connectionCount: make(map[string]int),
		},
	}
}

// Add presents a new peer (kind: inbound | outbound | persistent) from host; returns its index
// and whether the real handler admitted it.
func (b *VerifBook) Add(kind, host string) (int, bool) {
	b.next++
	sp := newServerPeer(b.s, kind == "persistent", b.log)
	sp.Peer = peer.VerifFakePeer(kind == "inbound", fmt.Sprintf("%s:%d", host, 10000+b.next), b.next, b.log)
	b.sps = append(b.sps, sp)
	return len(b.sps) - 1, b.s.handleAddPeerMsg(b.st, sp)
}

// Done reports a peer as gone.
func (b *VerifBook) Done(i int) { b.s.handleDonePeerMsg(b.st, b.sps[i]) }

// Ban bans a peer's host.
func (b *VerifBook) Ban(i int) { b.s.handleBanPeerMsg(b.st, b.sps[i].Peer) }

// Disconnected reports whether Disconnect was called on the peer (refused or banned).
func (b *VerifBook) Disconnected(i int) bool { return peer.VerifDisconnectCalled(b.sps[i].Peer) }

// Dump returns the counters the handlers maintain.
func (b *VerifBook) Dump() (connCount map[string]int, groups map[string]int, in, out, pers int) {
	connCount, groups = map[string]int{}, map[string]int{}
	for k, v := range b.st.connectionCount {
		connCount[k] = v
	}
	for k, v := range b.st.outboundGroups {
		groups[k] = v
	}
	return connCount, groups, len(b.st.inboundPeers), len(b.st.outboundPeers), len(b.st.persistentPeers)
}

// Banned returns the implementation's ban table (host -> expiry).
func (b *VerifBook) Banned() map[string]time.Time {
	out := map[string]time.Time{}
	for h, t := range b.st.banned {
		out[h] = t
	}
	return out
}

// Limits returns the configured limits.
func VerifLimits() (total, perIP int) { return config.MaxPeers, config.MaxPeersPerIP }
