//go:build verif

package peer

import "sync/atomic"

// VerifDisconnectCalled reports whether Disconnect was called on the peer.
func VerifDisconnectCalled(p *Peer) bool { return atomic.LoadInt32(&p.disconnect) != 0 }

// VerifPrevGetHeaders returns the duplicate-filter state of PushGetHeadersMsg.
func VerifPrevGetHeaders(p *Peer) (begin, stop string) {
	p.prevGetHdrsMtx.Lock()
	defer p.prevGetHdrsMtx.Unlock()
	if p.prevGetHdrsBegin != nil {
		begin = p.prevGetHdrsBegin.String()
	}
	if p.prevGetHdrsStop != nil {
		stop = p.prevGetHdrsStop.String()
	}
	return
}
