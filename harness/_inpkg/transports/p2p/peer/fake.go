//go:build verif

package peer

import (
	"net"
	"strconv"

	"github.com/bitcoin-sv/block-headers-service/internal/chaincfg"
	"github.com/bitcoin-sv/block-headers-service/internal/wire"
	"github.com/rs/zerolog"
)

// VerifFakePeer builds a peer as it looks after a completed version exchange (id, address and
// version flag set), without a connection. Used to drive the server's peer bookkeeping handlers.
func VerifFakePeer(inbound bool, addr string, id int32, log *zerolog.Logger) *Peer {
	p := newPeerBase(&Config{Log: log, ChainParams: &chaincfg.MainNetParams}, inbound)
	p.addr = addr
	host, portStr, _ := net.SplitHostPort(addr)
	port, _ := strconv.Atoi(portStr)
	p.na = wire.NewNetAddressIPPort(net.ParseIP(host), uint16(port), wire.SFNodeNetwork)
	p.id = id
	p.versionKnown = true
	return p
}
