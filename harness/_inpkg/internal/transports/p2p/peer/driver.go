//go:build verif

package peer

import (
	"fmt"
	"net"

	"github.com/bitcoin-sv/block-headers-service/config"
	"github.com/bitcoin-sv/block-headers-service/internal/chaincfg"
	"github.com/bitcoin-sv/block-headers-service/internal/wire"
	"github.com/bitcoin-sv/block-headers-service/service"
	"github.com/rs/zerolog"
)

// VerifHeadersDriver hands headers batches to the real handleHeadersMsg of an experimental
// Peer whose connection is one end of an in-memory pipe; queued outgoing messages are
// collected instead of written.
type VerifHeadersDriver struct {
	P    *Peer
	Sent []wire.Message
	far  net.Conn
}

// VerifNewHeadersDriver builds the driver.
func VerifNewHeadersDriver(hs service.Headers, cs service.Chains, params *chaincfg.Params, checkpoints []chaincfg.Checkpoint, log *zerolog.Logger) *VerifHeadersDriver {
	near, far := net.Pipe()
	p, err := NewPeer(near, false, &config.P2PConfig{}, params, hs, cs, log)
	if err != nil {
		panic(err)
	}
	p.addr = &net.TCPAddr{IP: net.ParseIP("10.0.0.2"), Port: 8333}
	p.checkpoint = newCheckpoint(checkpoints, hs.GetTipHeight(), log)
	return &VerifHeadersDriver{P: p, far: far}
}

// Deliver runs the real handler on one headers message and drains what it queued.
func (d *VerifHeadersDriver) Deliver(hs []*wire.BlockHeader) {
	msg := wire.NewMsgHeaders()
	msg.Headers = hs
	d.P.handleHeadersMsg(msg)
	d.drain()
}

func (d *VerifHeadersDriver) drain() {
	for {
		select {
		case m := <-d.P.msgChan:
			d.Sent = append(d.Sent, m)
		default:
			return
		}
	}
}

// Disconnected reports whether the handler disconnected the peer.
func (d *VerifHeadersDriver) Disconnected() bool { return d.P.quitting }

// Close releases the pipe.
func (d *VerifHeadersDriver) Close() {
	if !d.P.quitting {
		_ = d.P.conn.Close()
	}
	_ = d.far.Close()
}

// VerifDump renders the private sync state of an experimental peer (for canonical state keys).
func VerifDump(p *Peer) string {
	cp := int32(-2)
	if p.checkpoint != nil {
		cp = p.checkpoint.Height()
	}
	h, lh := p.getLatestStats()
	return fmt.Sprintf("cp=%d sendHeaders=%v synced=%v latest=%d latestHashSet=%v quitting=%v", cp, p.sendHeadersMode, p.syncedCheckpoints, h, lh != nil, p.quitting)
}

// VerifQuiesce disconnects the peer if it is still running.
func VerifQuiesce(p *Peer) {
	if !p.quitting {
		p.Disconnect()
	}
}
