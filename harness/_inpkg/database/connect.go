//go:build verif

package database

import (
	"github.com/bitcoin-sv/block-headers-service/config"
	"github.com/jmoiron/sqlx"
)

// VerifConnect opens the SQLite file exactly as the service does (the adapter's own connect:
// its DSN and whatever else it sets up), without migrations or import.
func VerifConnect(cfg *config.DbConfig) (*sqlx.DB, error) {
	a := &sqLiteAdapter{}
	if err := a.connect(cfg); err != nil {
		return nil, err
	}
	return a.db, nil
}
