package storewalk

import (
	"fmt"
	"math/big"
	"testing"

	"github.com/bitcoin-sv/block-headers-service/verifh/core"
)

func init() {
	props["C03"] = &propSpec{
		mk: func(rep *core.Report) core.Visitor { return &c03{rep: rep, byDepth: map[int][]core.Row{}} },
		quick: []family{
			{Name: "all", N: 4, W: 2},
			{Name: "all-bits", N: 3, W: 4},
			{Name: "big-work", N: 3, WSet: []uint32{core.BitsHuge, core.BitsMax, core.BitsLight}},
		},
		thorough: []family{
			{Name: "big-work", N: 4, WSet: []uint32{core.BitsHuge, core.BitsMax, core.BitsLight}},
			{Name: "all", N: 5, W: 2},
			{Name: "all-bits3", N: 4, W: 3},
		},
		rule: "one evaluation = one stored header compared field by field with the independent derivation (hash, height, work, cumulative work, six source fields) in one visited store, or one header of the field-boundary product; non-trivial = header is not a plain child of the tip (fork, orphan, stale, zero work) or carries a boundary field value; distinct by (blueprint, arrival order, hash)",
	}
}

type c03 struct {
	rep     *core.Report
	byDepth map[int][]core.Row
	product bool
}

func (o *c03) viol(c *core.Ctx, kind, what string, exp, obs any) {
	var rp any
	if c != nil {
		rp = c.ReplayInfo()
	}
	o.rep.Violate(core.Violation{Kind: kind, What: what, Replay: rp, Expected: exp, Observed: obs})
}

// Transition: nothing but header_state may differ between the predecessor store and this
// one, and no row may vanish.
func (o *c03) Transition(c *core.Ctx, ti core.TransInfo, res core.AddResult) bool {
	prev := o.byDepth[len(c.Seq)-1]
	cur := map[string]core.Row{}
	for _, r := range c.Rows {
		cur[r.Hash] = r
	}
	for _, p := range prev {
		n, ok := cur[p.Hash]
		if !ok {
			o.viol(c, "immutable.vanished", "header "+p.Hash[:8]+" disappeared after Add", p.String(), nil)
			continue
		}
		if n.Immutable() != p.Immutable() {
			o.viol(c, "immutable.changed", "a column other than header_state changed after Add", p.Immutable(), n.Immutable())
		}
	}
	return true
}

func (o *c03) State(c *core.Ctx) {
	o.byDepth[len(c.Seq)] = c.Rows
	rep := o.rep
	rows := map[string]core.Row{}
	for _, r := range c.Rows {
		rows[r.Hash] = r
	}
	api := c.Rig.NewAPI(core.APIOpts{})
	best := c.Model.Best()
	for _, m := range c.Model.Order {
		rep.Evaluations++
		if m.Parent != best && m.Node != 0 {
			rep.DistinctNontrivial++
		}
		r, ok := rows[m.Hash]
		if !ok {
			// the independent hash is the only key we look rows up by: a wrong stored hash shows here
			o.viol(c, "hash.missing", fmt.Sprintf("no row with the SHA-256d hash %s of node %d", m.Hash, m.Node), m.Hash, nil)
			continue
		}
		checkRow(o, c, m, r)
		checkReads(o, c, api, m)
	}
	rep.Sample(func() any {
		m := c.Model.Order[len(c.Model.Order)-1]
		return map[string]any{"blueprint": c.U.B.String(), "arrival_order": append([]int{}, c.Seq...), "last_header": map[string]any{
			"hash": m.Hash, "height": m.Height, "work": m.Work.String(), "cumulative": m.Cum.String()}}
	})
	// restart: close, database.Init on the same file, re-read: nothing may change.
	if len(c.Seq) == c.U.B.N() || c.U.B.N() <= 3 {
		before := core.Digest(c.Rows)
		c.Rig.CloseKeep()
		r2 := core.OpenRig(c.Rig.Path, core.RigOpts{ReInit: true})
		after := core.DumpHeaders(r2.DB)
		rep.Executions++
		rep.Outcome("restart")
		if core.Digest(after) != before {
			o.viol(c, "restart.changed", "database.Init on an existing file changed the headers table", before, core.Digest(after))
		}
		for _, m := range c.Model.Order {
			bh, err := r2.Svc.Headers.GetHeaderByHash(m.Hash)
			if err != nil || bh == nil || bh.Timestamp.Unix() != int64(m.Raw.Time) || bh.Nonce != m.Raw.Nonce || bh.Bits != m.Raw.Bits || bh.Version != m.Raw.Version {
				o.viol(c, "restart.read", "header unreadable or altered after restart", m.Hash, fmt.Sprint(bh, err))
			}
		}
		// once more with db.prepared_db = true (standing configuration of an installation that was
		// set up from a prepared file): the import must be skipped, nothing may change
		r2.CloseKeep()
		r2 = core.OpenRig(c.Rig.Path, core.RigOpts{ReInit: true, Prepared: true})
		rep.Executions++
		rep.Outcome("restart:prepared_db")
		if r2.InitErr != nil {
			o.viol(c, "restart.prepared.failed", "database.Init with prepared_db=true fails on a store that holds headers", nil, r2.InitErr.Error())
		}
		if d := core.Digest(core.DumpHeaders(r2.DB)); d != before {
			o.viol(c, "restart.prepared.changed", "database.Init with prepared_db=true changed a headers table that was not empty", before, d)
		}
		// hand the reopened handle back to the walker (it copies the file for successors)
		c.Rig.DB = r2.DB
		c.Rig.Svc = r2.Svc
		c.Rig.Repo = r2.Repo
	}
}

func checkRow(o *c03, c *core.Ctx, m *core.MHeader, r core.Row) {
	exp := map[string]string{
		"height":     fmt.Sprint(m.Height),
		"version":    fmt.Sprint(m.Raw.Version),
		"merkleroot": m.Raw.Merkle.Hex(),
		"nonce":      fmt.Sprint(m.Raw.Nonce),
		"bits":       fmt.Sprint(m.Raw.Bits),
		"chainwork":  m.Work.String(),
		"prev":       m.Prev,
		"cum":        m.Cum.String(),
	}
	got := map[string]string{"height": r.Height, "version": r.Version, "merkleroot": r.Merkle, "nonce": r.Nonce, "bits": r.Bits, "chainwork": r.Chainwork, "prev": r.Prev, "cum": r.Cum}
	for k, e := range exp {
		if got[k] != e {
			o.viol(c, "row."+k, fmt.Sprintf("column %s of %s (node %d)", k, m.Hash[:8], m.Node), e, got[k])
		}
	}
}

type hdrJSON struct {
	Hash      string `json:"hash"`
	Version   int32  `json:"version"`
	Prev      string `json:"prevBlockHash"`
	Merkle    string `json:"merkleRoot"`
	Timestamp uint32 `json:"creationTimestamp"`
	Bits      uint32 `json:"difficultyTarget"`
	Nonce     uint32 `json:"nonce"`
	Work      string `json:"work"`
}

func (h hdrJSON) matches(m *core.MHeader) bool {
	return h.Hash == m.Hash && h.Version == m.Raw.Version && h.Prev == m.Prev && h.Merkle == m.Raw.Merkle.Hex() &&
		h.Timestamp == m.Raw.Time && h.Bits == m.Raw.Bits && h.Nonce == m.Raw.Nonce && h.Work == m.Work.String()
}

func checkReads(o *c03, c *core.Ctx, api *core.API, m *core.MHeader) {
	bh, err := c.Rig.Svc.Headers.GetHeaderByHash(m.Hash)
	if err != nil || bh == nil {
		o.viol(c, "svc.missing", "GetHeaderByHash fails for stored "+m.Hash[:8], nil, fmt.Sprint(err))
		return
	}
	ok := bh.Hash.String() == m.Hash && bh.Height == m.Height && bh.Version == m.Raw.Version &&
		bh.MerkleRoot.String() == m.Raw.Merkle.Hex() && bh.PreviousBlock.String() == m.Prev &&
		bh.Timestamp.Unix() == int64(m.Raw.Time) && bh.Timestamp.Nanosecond() == 0 &&
		bh.Bits == m.Raw.Bits && bh.Nonce == m.Raw.Nonce &&
		bh.Chainwork.Cmp(m.Work) == 0 && bh.CumulatedWork.Cmp(m.Cum) == 0
	if !ok {
		o.viol(c, "svc.fields", "GetHeaderByHash fields differ from the independent derivation for "+m.Hash[:8],
			fmt.Sprint(m.Height, m.Raw, m.Work, m.Cum), fmt.Sprint(bh.Height, bh.Version, bh.MerkleRoot, bh.PreviousBlock, bh.Timestamp.Unix(), bh.Bits, bh.Nonce, bh.Chainwork, bh.CumulatedWork))
	}
	hdr := map[string]string{"Authorization": "Bearer " + c.Rig.Cfg.HTTP.AuthToken}
	var hj hdrJSON
	r := api.Do("GET", "/api/v1/chain/header/"+m.Hash, nil, hdr)
	if r.Code != 200 || !r.JSON(&hj) || !hj.matches(m) {
		o.viol(c, "http.header", "GET /chain/header/{hash} differs for "+m.Hash[:8], fmt.Sprint(m.Raw, m.Work), fmt.Sprintf("%d %s", r.Code, trunc(r.Body)))
	}
	var sj struct {
		Header    hdrJSON `json:"header"`
		State     string  `json:"state"`
		ChainWork string  `json:"chainWork"`
		Height    int32   `json:"height"`
	}
	r = api.Do("GET", "/api/v1/chain/header/state/"+m.Hash, nil, hdr)
	if r.Code != 200 || !r.JSON(&sj) || !sj.Header.matches(m) || sj.Height != m.Height || sj.ChainWork != m.Cum.String() {
		o.viol(c, "http.state", "GET /chain/header/state/{hash} differs for "+m.Hash[:8], fmt.Sprint(m.Height, m.Cum), fmt.Sprintf("%d %s", r.Code, trunc(r.Body)))
	}
}

// Finish runs the field-boundary product once per shard slice: every combination of
// boundary values of every source field, stored through Add and read back.
func (o *c03) Finish() {
	env := core.GetEnv()
	versions := []int32{-2147483648, -1, 0, 1, 2147483647}
	u32 := []uint32{0, 1, 0x7fffffff, 0x80000000, 0xffffffff}
	var zero, ff, fixed core.Hash32
	for i := range ff {
		ff[i] = 0xff
		fixed[i] = byte(7*i + 3)
	}
	gen := core.GenesisRaw().Hash()
	prevs := []core.Hash32{zero, ff, gen}
	merkles := []core.Hash32{zero, ff, fixed}
	rig := core.NewRig(core.RigOpts{})
	defer rig.Close()
	api := rig.NewAPI(core.APIOpts{})
	model := core.NewTree()
	c := &core.Ctx{Rig: rig, Model: model, Rep: o.rep, U: core.Fabricate(core.Blueprint{Nodes: make([]core.BNode, 1)}, 0)}
	idx := 0
	for _, v := range versions {
		for _, bits := range u32 {
			for _, nonce := range u32 {
				for _, ts := range u32 {
					for _, p := range prevs {
						for _, mk := range merkles {
							idx++
							if !env.Mine(idx) {
								continue
							}
							raw := core.RawHeader{Version: v, Prev: p, Merkle: mk, Time: ts, Bits: bits, Nonce: nonce}
							out, m := model.Add(-1, raw)
							res := core.SafeAdd(rig.Svc.Chains, raw.Source())
							o.rep.Executions++
							o.rep.Evaluations++
							o.rep.DistinctNontrivial++
							if res.Code() != out.String() {
								o.viol(nil, "product.add."+res.Code(), fmt.Sprintf("field product header %+v answered %s, model %s: %v %s", raw, res.Code(), out, res.Err, firstLines(res.Panic, 8)), out.String(), res.Code())
								continue
							}
							if out != core.OutStored {
								continue
							}
							c.Seq = nil
							checkReadsProduct(o, c, api, m, raw)
						}
					}
				}
			}
		}
	}
	// compact-bits sweep: every class of the encoding (exponents around the truncating range, the
	// 256-bit boundary and the extremes x mantissas around each byte boundary x sign), each as a
	// chain of two headers so that the cumulative work is derived from a stored parent as well
	if env.Mine(0) {
		k := 0
		for _, exp := range []uint32{0, 1, 2, 3, 4, 29, 32, 33, 34, 35, 255} {
			for _, mant := range []uint32{1, 0xff, 0x100, 0xffff, 0x10000, 0x7fffff} {
				for _, sign := range []uint32{0, 0x00800000} {
					bits := exp<<24 | sign | mant
					prev := gen
					for d := 0; d < 2; d++ {
						k++
						var mk core.Hash32
						mk[0], mk[1], mk[2], mk[3] = 0xb1, byte(k), byte(k>>8), byte(d)
						raw := core.RawHeader{Version: 1, Prev: prev, Merkle: mk, Time: 1600000000 + uint32(k), Bits: bits, Nonce: uint32(k)}
						out, m := model.Add(-1, raw)
						res := core.SafeAdd(rig.Svc.Chains, raw.Source())
						o.rep.Executions++
						o.rep.Evaluations++
						o.rep.DistinctNontrivial++
						if res.Code() != out.String() {
							o.viol(nil, "product.add."+res.Code(), fmt.Sprintf("bits sweep header %+v answered %s, model %s: %v %s", raw, res.Code(), out, res.Err, firstLines(res.Panic, 8)), out.String(), res.Code())
							break
						}
						if out != core.OutStored {
							break
						}
						c.Seq = nil
						checkReadsProduct(o, c, api, m, raw)
						prev = raw.Hash()
					}
				}
			}
		}
	}
	// every product header once more after a restart
	rig.CloseKeep()
	r2 := core.OpenRig(rig.Path, core.RigOpts{ReInit: true})
	defer r2.CloseKeep()
	rowsByHash := map[string]core.Row{}
	for _, r := range core.DumpHeaders(r2.DB) {
		rowsByHash[r.Hash] = r
	}
	c.Rig = r2
	api = r2.NewAPI(core.APIOpts{})
	for _, m := range model.Order {
		if m.Node == 0 {
			continue
		}
		r, ok := rowsByHash[m.Hash]
		if !ok {
			o.viol(nil, "product.hash.missing", fmt.Sprintf("no row for %+v after restart", m.Raw), m.Hash, nil)
			continue
		}
		checkRowProduct(o, m, r)
		checkReadsProduct(o, c, api, m, m.Raw)
	}
	o.rep.Extra["field_product_headers_this_shard"] = len(model.Order) - 1
	o.rep.Samples = append(o.rep.Samples, map[string]any{"field_product_example": fmt.Sprintf("%+v", model.Order[len(model.Order)-1].Raw)})
}

func checkRowProduct(o *c03, m *core.MHeader, r core.Row) {
	pc := &core.Ctx{U: core.Fabricate(core.Blueprint{Nodes: make([]core.BNode, 1)}, 0)}
	_ = pc
	exp := []string{fmt.Sprint(m.Height), fmt.Sprint(m.Raw.Version), m.Raw.Merkle.Hex(), fmt.Sprint(m.Raw.Nonce), fmt.Sprint(m.Raw.Bits), m.Work.String(), m.Prev, m.Cum.String()}
	got := []string{r.Height, r.Version, r.Merkle, r.Nonce, r.Bits, r.Chainwork, r.Prev, r.Cum}
	names := []string{"height", "version", "merkleroot", "nonce", "bits", "chainwork", "prev", "cum"}
	for i := range exp {
		if exp[i] != got[i] {
			o.viol(nil, "product.row."+names[i], fmt.Sprintf("column %s for %+v", names[i], m.Raw), exp[i], got[i])
		}
	}
}

func checkReadsProduct(o *c03, c *core.Ctx, api *core.API, m *core.MHeader, raw core.RawHeader) {
	n := len(o.rep.Violations)
	cnt := map[string]int64{}
	for k, v := range o.rep.ViolationCounts {
		cnt[k] = v
	}
	checkReads(o, c, api, m)
	// re-tag violations raised inside checkReads as product violations with the header as replay
	for i := n; i < len(o.rep.Violations); i++ {
		o.rep.Violations[i].Replay = map[string]any{"engine": "storewalk", "field_product_header": fmt.Sprintf("%+v", raw)}
	}
	_ = cnt
	_ = big.NewInt
}

var _ = testing.Short
