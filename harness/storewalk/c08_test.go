package storewalk

import (
	"fmt"
	"net/url"

	"github.com/bitcoin-sv/block-headers-service/verifh/core"
)

func init() {
	props["C08"] = &propSpec{
		mk: func(rep *core.Report) core.Visitor { return &c08{rep: rep} },
		quick: []family{
			{Name: "all", N: 4, W: 2},
		},
		thorough: []family{
			{Name: "all", N: 5, W: 2},
		},
		rule: "one evaluation = one page request (batch size, start key) or one complete multi-page walk on one visited store; non-trivial = the store has a stale or orphan header at a listed height, or the start key is a non-longest/unknown root; distinct by (blueprint, arrival order, batch, key). Walks interleaved with ingestion decompose into (store after the Add, key) pairs: every such pair is enumerated because every stored root - including roots a reorganisation moved off the chain - is used as a key in every reachable store",
	}
}

type c08 struct {
	rep *core.Report
}

func (o *c08) viol(c *core.Ctx, kind, what string, exp, obs any) {
	o.rep.Violate(core.Violation{Kind: kind, What: what, Replay: c.ReplayInfo(), Expected: exp, Observed: obs})
}

func (o *c08) Transition(c *core.Ctx, ti core.TransInfo, res core.AddResult) bool {
	if ti.Reorg {
		o.rep.Outcome("reorg-transition (keys of the old branch now expect 409)")
	}
	return true
}

type pageJSON struct {
	Content []struct {
		MerkleRoot  string `json:"merkleRoot"`
		BlockHeight int32  `json:"blockHeight"`
	} `json:"content"`
	Page struct {
		TotalElements    int32  `json:"totalElements"`
		Size             int    `json:"size"`
		LastEvaluatedKey string `json:"lastEvaluatedKey"`
	} `json:"page"`
}

func (o *c08) State(c *core.Ctx) {
	if !c.Consistent {
		o.rep.Outcome("skipped:store diverges from C01 model")
		return
	}
	rep := o.rep
	t := c.Model
	longest := t.LongestPath()
	labels := t.Labels()
	onChain := map[string]int{} // merkle root -> height on the longest chain
	for _, m := range longest {
		onChain[m.Raw.Merkle.Hex()] = int(m.Height)
	}
	nt := false
	for _, m := range t.Order {
		if labels[m.Hash] != core.LLongest && int(m.Height) < len(longest) {
			nt = true
		}
	}
	if nt {
		rep.DistinctNontrivial++
	}
	api := c.Rig.NewAPI(core.APIOpts{})
	hdr := map[string]string{"Authorization": "Bearer " + c.Rig.Cfg.HTTP.AuthToken}
	before := core.Digest(c.Rows)
	page := func(batch int, key string) (core.Resp, pageJSON, bool) {
		q := fmt.Sprintf("/api/v1/chain/merkleroot?batchSize=%d", batch)
		if key != "" {
			q += "&lastEvaluatedKey=" + url.QueryEscape(key)
		}
		rep.Evaluations++
		rep.Executions++
		r := api.Do("GET", q, nil, hdr)
		var pj pageJSON
		ok := r.Code == 200 && r.JSON(&pj)
		return r, pj, ok
	}
	type key struct {
		k     string
		class string
	}
	keys := []key{{"", "start"}, {"no-such-merkle-root", "unknown"}, {unknownHash, "unknown"}}
	for _, m := range t.Order {
		keys = append(keys, key{m.Raw.Merkle.Hex(), labels[m.Hash]})
	}
	n := len(longest)
	for batch := 0; batch <= n+2; batch++ {
		for _, k := range keys {
			r, pj, ok := page(batch, k.k)
			rep.Outcome("page:key=" + k.class)
			var ej errJSON
			switch k.class {
			case "unknown":
				if r.Code != 404 || !r.JSON(&ej) || ej.Code != "ErrMerkleRootNotFound" {
					o.viol(c, "key.unknown", fmt.Sprintf("batch %d, key %q: expected 404 ErrMerkleRootNotFound", batch, k.k), 404, fmt.Sprintf("%d %s", r.Code, trunc(r.Body)))
				}
				continue
			case core.LStale, core.LOrphan:
				if r.Code != 409 || !r.JSON(&ej) || ej.Code == "" {
					o.viol(c, "key.off_chain."+k.class, fmt.Sprintf("batch %d, key of a %s block: expected the 409 conflict error, never a page", batch, k.class), 409, fmt.Sprintf("%d %s", r.Code, trunc(r.Body)))
				}
				continue
			}
			from := 0
			if k.k != "" {
				from = onChain[k.k] + 1
			}
			if !ok {
				o.viol(c, "page.status", fmt.Sprintf("batch %d key %s", batch, k.class), 200, fmt.Sprintf("%d %s", r.Code, trunc(r.Body)))
				continue
			}
			to := from + batch
			if to > n {
				to = n
			}
			if from > n {
				from = n
			}
			bad := len(pj.Content) != to-from
			for i := 0; !bad && i < len(pj.Content); i++ {
				m := longest[from+i]
				if pj.Content[i].MerkleRoot != m.Raw.Merkle.Hex() || pj.Content[i].BlockHeight != m.Height {
					bad = true
				}
			}
			if bad {
				o.viol(c, "page.content", fmt.Sprintf("batch %d key %s(h%d): page must be the next longest-chain blocks in ascending height", batch, k.class, from-1), fmt.Sprintf("heights %d..%d", from, to-1), trunc(r.Body))
				continue
			}
			wantKey := ""
			if to < n && to > from {
				wantKey = longest[to-1].Raw.Merkle.Hex()
			}
			if batch > 0 && pj.Page.LastEvaluatedKey != wantKey {
				o.viol(c, "page.key", fmt.Sprintf("batch %d key %s(h%d): lastEvaluatedKey must be empty exactly when the page ends at the tip", batch, k.class, from-1), wantKey, pj.Page.LastEvaluatedKey)
			}
			if pj.Page.Size != len(pj.Content) {
				o.viol(c, "page.size", "page.size differs from the number of entries", len(pj.Content), pj.Page.Size)
			}
		}
		if batch == 0 {
			continue
		}
		// complete walk from the beginning
		var seen []string
		k := ""
		for pages := 0; ; pages++ {
			if pages > n+2 {
				o.viol(c, "walk.endless", fmt.Sprintf("walk with batch %d does not reach an empty key", batch), nil, nil)
				break
			}
			r, pj, ok := page(batch, k)
			if !ok {
				o.viol(c, "walk.status", fmt.Sprintf("walk with batch %d", batch), 200, fmt.Sprintf("%d %s", r.Code, trunc(r.Body)))
				break
			}
			if len(pj.Content) > batch {
				o.viol(c, "walk.page_too_long", "page longer than batchSize", batch, len(pj.Content))
			}
			for _, e := range pj.Content {
				seen = append(seen, e.MerkleRoot)
			}
			k = pj.Page.LastEvaluatedKey
			if k == "" {
				break
			}
		}
		okWalk := len(seen) == n
		for i := 0; okWalk && i < n; i++ {
			okWalk = seen[i] == longest[i].Raw.Merkle.Hex()
		}
		if !okWalk {
			o.viol(c, "walk.coverage", fmt.Sprintf("walk with batch %d must visit every longest-chain block exactly once in ascending order", batch), n, seen)
		}
		rep.Outcome("walk")
	}
	if after := core.Digest(core.DumpHeaders(c.Rig.DB)); after != before {
		o.viol(c, "read.modified_store", "listing changed the headers table", before, after)
	}
	rep.Sample(func() any {
		return map[string]any{"blueprint": c.U.B.String(), "arrival_order": append([]int{}, c.Seq...), "longest_len": n, "keys": len(keys), "batches": n + 3}
	})
}
