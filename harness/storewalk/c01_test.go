package storewalk

import (
	"fmt"

	"github.com/bitcoin-sv/block-headers-service/verifh/core"
)

func init() {
	props["C01"] = &propSpec{
		mk: func(rep *core.Report) core.Visitor { return &c01{rep: rep} },
		quick: []family{
			{Name: "all", N: 4, W: 2},
			{Name: "all-bits", N: 3, W: 4},
			{Name: "big-work", N: 3, WSet: []uint32{core.BitsHuge, core.BitsMax, core.BitsLight}},
			{Name: "forbidden", N: 3, W: 2, Forbidden: true},
		},
		thorough: []family{
			{Name: "big-work", N: 4, WSet: []uint32{core.BitsHuge, core.BitsMax, core.BitsLight}},
			{Name: "all", N: 5, W: 2},
			{Name: "all-bits3", N: 4, W: 3},
			{Name: "all-bits4", N: 3, W: 4},
			{Name: "forbidden", N: 4, W: 2, Forbidden: true},
		},
		rule: "one evaluation = one visited store (history = arrival order of a subset of a blueprint); non-trivial = history contains a fork, an orphan, a child stored before its parent, or a zero/negative-target header; distinct by (blueprint, arrival order)",
	}
}

type c01 struct {
	rep *core.Report
}

func (o *c01) viol(c *core.Ctx, kind, what string, exp, obs any) {
	o.rep.Violate(core.Violation{Kind: kind, What: what, Replay: c.ReplayInfo(), Expected: exp, Observed: obs})
}

// Transition: the submission is answered as the model predicts and the successor store's
// labels are the model's.
func (o *c01) Transition(c *core.Ctx, ti core.TransInfo, res core.AddResult) bool {
	code := res.Code()
	if code != ti.Outcome.String() {
		kind := "add." + code + "/" + ti.Class()
		what := fmt.Sprintf("Add(node %d) answered %q, model says %q", ti.Node, code, ti.Outcome)
		if res.Panic != "" {
			what += ": " + firstLines(res.Panic, 12)
		} else if res.Err != nil {
			what += ": " + res.Err.Error()
		}
		o.viol(c, kind, what, ti.Outcome.String(), code)
		return false
	}
	if res.Header != nil && ti.Outcome == core.OutStored {
		if got := res.Header.Hash.String(); got != c.U.H[ti.Node].Hex() {
			o.viol(c, "add.returned_hash", "Add returned a header with another hash", c.U.H[ti.Node].Hex(), got)
		}
	}
	if !c.Consistent {
		_, why := core.CheckConsistent(c.Rows, c.Model)
		o.viol(c, "label/"+ti.Class(), "after Add(node "+fmt.Sprint(ti.Node)+"): "+why, labelsOf(c.Model), rowLabels(c.Rows))
		return false
	}
	return true
}

func labelsOf(t *core.Tree) map[string]string {
	out := map[string]string{}
	l := t.Labels()
	for _, m := range t.Order {
		out[fmt.Sprintf("n%d:%s", m.Node, m.Hash[:8])] = l[m.Hash]
	}
	return out
}

func rowLabels(rows []core.Row) map[string]string {
	out := map[string]string{}
	for _, r := range rows {
		out[r.Hash[:8]] = r.State
	}
	return out
}

func nontrivial(c *core.Ctx) bool {
	seen := map[int]bool{0: true}
	children := map[int]int{}
	for _, n := range c.Seq {
		p := c.U.B.Nodes[n].Parent
		if p == core.ParentUnknown || !seen[p] {
			return true // orphan or child before parent
		}
		children[p]++
		if children[p] > 1 {
			return true // fork
		}
		if core.RefWork(c.U.B.Nodes[n].Bits).Sign() == 0 {
			return true
		}
		seen[n] = true
	}
	return false
}

// State: tip, per-hash reads, HTTP cross-read, re-submission and forbidden submission.
func (o *c01) State(c *core.Ctx) {
	rep := o.rep
	rep.Evaluations++
	if nontrivial(c) {
		rep.DistinctNontrivial++
	}
	rep.Sample(func() any {
		return map[string]any{"blueprint": c.U.B.String(), "arrival_order": append([]int{}, c.Seq...), "labels": labelsOf(c.Model), "tip_node": c.Model.Best().Node}
	})
	if !c.Consistent {
		// only reachable for the initial state (transitions prune): genesis must be LONGEST
		_, why := core.CheckConsistent(c.Rows, c.Model)
		o.viol(c, "label/initial", why, nil, nil)
		return
	}
	best := c.Model.Best()
	tip := c.Rig.Svc.Headers.GetTip()
	switch {
	case tip == nil:
		o.viol(c, "tip.nil", "GetTip returned nil", best.Hash, nil)
	case tip.Hash.String() != best.Hash:
		o.viol(c, "tip.hash", "GetTip is not the model's best header", best.Hash, tip.Hash.String())
	case tip.Height != best.Height || tip.CumulatedWork.Cmp(best.Cum) != 0 || string(tip.State) != core.LLongest:
		o.viol(c, "tip.fields", "tip height/work/state differ from the model", fmt.Sprint(best.Height, best.Cum), fmt.Sprint(tip.Height, tip.CumulatedWork, tip.State))
	}
	if h := c.Rig.Svc.Headers.GetTipHeight(); h != best.Height {
		o.viol(c, "tip.height", "GetTipHeight differs", best.Height, h)
	}
	labels := c.Model.Labels()
	for _, m := range c.Model.Order {
		bh, err := c.Rig.Svc.Headers.GetHeaderByHash(m.Hash)
		if err != nil || bh == nil {
			o.viol(c, "read.missing", "GetHeaderByHash fails for a stored header", m.Hash, fmt.Sprint(err))
			continue
		}
		if string(bh.State) != labels[m.Hash] {
			o.viol(c, "read.state", "GetHeaderByHash state differs from model", labels[m.Hash], string(bh.State))
		}
	}
	// HTTP cross-read.
	api := c.Rig.NewAPI(core.APIOpts{})
	c.Rig.Cfg.HTTP.UseAuth = false
	hdr := map[string]string{"Authorization": "Bearer " + c.Rig.Cfg.HTTP.AuthToken}
	var tr struct {
		Header struct {
			Hash string `json:"hash"`
		} `json:"header"`
		State  string `json:"state"`
		Height int32  `json:"height"`
	}
	r := api.Do("GET", "/api/v1/chain/tip/longest", nil, hdr)
	if r.Code != 200 || !r.JSON(&tr) || tr.Header.Hash != best.Hash || tr.State != core.LLongest || tr.Height != best.Height {
		o.viol(c, "http.tip", "GET /chain/tip/longest differs from the model", best.Hash, fmt.Sprintf("%d %s", r.Code, r.Body))
	}
	for _, m := range c.Model.Order {
		r := api.Do("GET", "/api/v1/chain/header/state/"+m.Hash, nil, hdr)
		tr.State = ""
		if r.Code != 200 || !r.JSON(&tr) || tr.State != labels[m.Hash] || tr.Header.Hash != m.Hash {
			o.viol(c, "http.state", "GET /chain/header/state differs from the model", labels[m.Hash], fmt.Sprintf("%d %s", r.Code, r.Body))
		}
	}
	// Re-submission of every stored header changes nothing.
	before := core.Digest(c.Rows)
	for _, n := range c.Seq {
		res := core.SafeAdd(c.Rig.Svc.Chains, c.U.Raw[n].Source())
		rep.Transitions++
		if res.Code() != "duplicate" {
			o.viol(c, "resubmit."+res.Code(), fmt.Sprintf("re-submitting stored node %d answered %q", n, res.Code()), "duplicate", res.Code())
		}
	}
	// genesis itself re-submitted
	if res := core.SafeAdd(c.Rig.Svc.Chains, c.U.Raw[0].Source()); res.Code() != "duplicate" {
		o.viol(c, "resubmit.genesis."+res.Code(), "re-submitting genesis", "duplicate", res.Code())
	}
	rep.Transitions++
	if c.Forbidden > 0 {
		res := core.SafeAdd(c.Rig.Svc.Chains, c.U.Raw[c.Forbidden].Source())
		rep.Transitions++
		rep.Outcome("forbidden->" + res.Code())
		if res.Code() != "forbidden" {
			o.viol(c, "forbidden."+res.Code(), "forbidden header was not answered BlockRejected", "forbidden", res.Code())
		}
	}
	after := core.DumpHeaders(c.Rig.DB)
	if core.Digest(after) != before {
		o.viol(c, "resubmit.changed_store", "re-submission / forbidden submission changed the table", before, core.Digest(after))
	}
}

func firstLines(s string, n int) string {
	out := ""
	k := 0
	for _, ch := range s {
		if ch == '\n' {
			k++
			if k >= n {
				break
			}
		}
		out += string(ch)
	}
	return out
}
