package storewalk

import (
	"fmt"
	"net/url"

	"github.com/bitcoin-sv/block-headers-service/verifh/core"
)

// deepReorg builds, by real Adds on one instance, a chain A of n headers and then a chain B of
// n+1 headers of the same per-block work from genesis: B's last header reorganises n headers off
// the longest chain and n onto it in one step (n is larger than any batching constant a storage
// layer is likely to use, and not a multiple of a round number).
func deepReorg(rep *core.Report, n int) (*core.Rig, *core.Tree, []*core.MHeader, bool) {
	rig := core.NewRig(core.RigOpts{})
	t := core.NewTree()
	ok := true
	add := func(raw core.RawHeader) *core.MHeader {
		_, m := t.Add(-1, raw)
		if res := core.SafeAdd(rig.Svc.Chains, raw.Source()); res.Code() != "stored" {
			rep.Violate(core.Violation{Kind: "deep_reorg.add", What: fmt.Sprintf("deep reorganisation (%d headers): Add answered %s for a new header", n, res.Code()), Replay: map[string]any{"engine": "storewalk", "case": "deep-reorg", "n": n}})
			ok = false
		}
		return m
	}
	mk := func(p core.Hash32, i int, salt byte) core.RawHeader {
		var m core.Hash32
		m[0], m[1], m[2], m[3] = byte(i), byte(i>>8), byte(i>>16), salt
		return core.RawHeader{Version: 1, Prev: p, Merkle: m, Time: 1600000000 + uint32(i), Bits: core.BitsLight, Nonce: uint32(i)}
	}
	var a []*core.MHeader
	prev := core.GenesisRaw().Hash()
	for i := 1; i <= n && ok; i++ {
		raw := mk(prev, i, 1)
		a = append(a, add(raw))
		prev = raw.Hash()
	}
	prev = core.GenesisRaw().Hash()
	for i := 1; i <= n+1 && ok; i++ {
		raw := mk(prev, i, 2)
		add(raw)
		prev = raw.Hash()
	}
	return rig, t, a, ok
}

// depths: an exact multiple of a round batching constant, and one that is not
var deepNs = []int{500, 623}

// Finish (C01): after the deep reorganisation every label and the tip are the model's.
func (o *c01) Finish() {
	env := core.GetEnv()
	if !env.Mine(0) || o.rep.Expired() {
		return
	}
	for _, deepN := range deepNs {
		o.deepCase(deepN)
	}
}

func (o *c01) deepCase(deepN int) {
	rig, t, _, ok := deepReorg(o.rep, deepN)
	defer rig.Close()
	if !ok {
		return
	}
	o.rep.States++
	o.rep.Evaluations++
	o.rep.DistinctNontrivial++
	o.rep.Outcome("deep-reorg")
	rp := map[string]any{"engine": "storewalk", "case": "deep-reorg", "n": deepN}
	if same, why := core.CheckConsistent(core.DumpHeaders(rig.DB), t); !same {
		o.rep.Violate(core.Violation{Kind: "deep_reorg.labels", What: fmt.Sprintf("after a reorganisation of %d headers: %s", deepN, why), Replay: rp})
	}
	best := t.LongestPath()
	if tip := rig.Svc.Headers.GetTip(); tip == nil || tip.Hash.String() != best[len(best)-1].Hash {
		o.rep.Violate(core.Violation{Kind: "deep_reorg.tip", What: fmt.Sprintf("after a reorganisation of %d headers the tip is not the last header of the heavier chain", deepN), Replay: rp, Expected: best[len(best)-1].Hash, Observed: fmt.Sprint(tip)})
	}
}

// Finish (C08): after the deep reorganisation complete walks list the new chain, and keys of the
// abandoned branch are refused.
func (o *c08) Finish() {
	env := core.GetEnv()
	if !env.Mine(1) || o.rep.Expired() {
		return
	}
	for _, deepN := range deepNs {
		o.deepCase(deepN)
	}
}

func (o *c08) deepCase(deepN int) {
	rig, t, a, ok := deepReorg(o.rep, deepN)
	defer rig.Close()
	if !ok {
		return
	}
	rep := o.rep
	rep.States++
	rep.DistinctNontrivial++
	rep.Outcome("deep-reorg")
	rp := map[string]any{"engine": "storewalk", "case": "deep-reorg", "n": deepN}
	longest := t.LongestPath()
	api := rig.NewAPI(core.APIOpts{})
	hdr := map[string]string{"Authorization": "Bearer " + rig.Cfg.HTTP.AuthToken}
	for _, batch := range []int{7, 500, 2000} {
		key, next := "", 0
		for steps := 0; steps < 200; steps++ {
			q := fmt.Sprintf("/api/v1/chain/merkleroot?batchSize=%d", batch)
			if key != "" {
				q += "&lastEvaluatedKey=" + url.QueryEscape(key)
			}
			r := api.Do("GET", q, nil, hdr)
			rep.Evaluations++
			rep.Executions++
			var pj pageJSON
			if r.Code != 200 || !r.JSON(&pj) {
				rep.Violate(core.Violation{Kind: "deep_reorg.page.status", What: fmt.Sprintf("walk with batch %d after a reorganisation of %d headers", batch, deepN), Replay: rp, Expected: 200, Observed: fmt.Sprintf("%d %s", r.Code, trunc(r.Body))})
				break
			}
			bad := false
			for _, e := range pj.Content {
				if next >= len(longest) || e.MerkleRoot != longest[next].Raw.Merkle.Hex() || e.BlockHeight != longest[next].Height {
					bad = true
					break
				}
				next++
			}
			if bad {
				rep.Violate(core.Violation{Kind: "deep_reorg.walk", What: fmt.Sprintf("walk with batch %d after a reorganisation of %d headers: the pages are not the longest chain in ascending height (stopped at height %d)", batch, deepN, next), Replay: rp})
				break
			}
			key = pj.Page.LastEvaluatedKey
			if key == "" {
				if next != len(longest) {
					rep.Violate(core.Violation{Kind: "deep_reorg.walk", What: fmt.Sprintf("walk with batch %d ended at height %d of %d", batch, next-1, len(longest)-1), Replay: rp})
				}
				break
			}
		}
	}
	for _, i := range []int{0, 99, 498, 499, len(a) - 1} {
		r := api.Do("GET", "/api/v1/chain/merkleroot?batchSize=5&lastEvaluatedKey="+a[i].Raw.Merkle.Hex(), nil, hdr)
		rep.Evaluations++
		var ej errJSON
		if r.Code != 409 || !r.JSON(&ej) || ej.Code == "" {
			rep.Violate(core.Violation{Kind: "deep_reorg.key.off_chain", What: fmt.Sprintf("key of block %d of the abandoned branch: expected the 409 conflict error", i+1), Replay: rp, Expected: 409, Observed: fmt.Sprintf("%d %s", r.Code, trunc(r.Body))})
		}
	}
}
