package storewalk

import (
	"encoding/json"
	"fmt"
	"sort"
	"strings"

	"github.com/bitcoin-sv/block-headers-service/verifh/core"
)

func init() {
	props["C04"] = &propSpec{
		mk: func(rep *core.Report) core.Visitor { return &c04{rep: rep} },
		quick: []family{
			{Name: "all-equal-work", N: 4, W: 1},
			{Name: "all", N: 3, W: 2},
			{Name: "forks", N: 4, W: 2, Filter: func(b core.Blueprint) bool { return hasFork(b) && noUnknown(b) }},
		},
		thorough: []family{
			{Name: "all", N: 4, W: 2},
			{Name: "all-equal-work", N: 5, W: 1},
		},
		rule: "one evaluation = one read request (route + arguments) on one visited store compared with the answer computed on the reference tree; non-trivial = the store holds a fork, a stale branch or an orphan; distinct by (blueprint, arrival order, request)",
	}
}

func noUnknown(b core.Blueprint) bool {
	for i := 1; i <= b.N(); i++ {
		if b.Nodes[i].Parent == core.ParentUnknown {
			return false
		}
	}
	return true
}

type c04 struct {
	rep *core.Report
}

func (o *c04) viol(c *core.Ctx, kind, what string, exp, obs any) {
	o.rep.Violate(core.Violation{Kind: kind, What: what, Replay: c.ReplayInfo(), Expected: exp, Observed: obs})
}

func (o *c04) Transition(c *core.Ctx, ti core.TransInfo, res core.AddResult) bool { return true }

type errJSON struct {
	Code    string `json:"code"`
	Message string `json:"message"`
}

const unknownHash = "00000000000000000000000000000000000000000000000000000000deadbeef"

func hashSet(hs []hdrJSON) (map[string]bool, bool) {
	out := map[string]bool{}
	dup := false
	for _, h := range hs {
		if out[h.Hash] {
			dup = true
		}
		out[h.Hash] = true
	}
	return out, dup
}

func keys(m map[string]bool) string {
	var k []string
	for x := range m {
		k = append(k, x[:8])
	}
	sort.Strings(k)
	return strings.Join(k, ",")
}

func (o *c04) State(c *core.Ctx) {
	if !c.Consistent {
		o.rep.Outcome("skipped:store diverges from C01 model")
		return
	}
	rep := o.rep
	t := c.Model
	if nontrivial(c) {
		rep.DistinctNontrivial++
	}
	api := c.Rig.NewAPI(core.APIOpts{})
	hdr := map[string]string{"Authorization": "Bearer " + c.Rig.Cfg.HTTP.AuthToken}
	get := func(p string) core.Resp { rep.Evaluations++; rep.Executions++; return api.Do("GET", p, nil, hdr) }
	before := core.Digest(c.Rows)
	labels := t.Labels()
	best := t.Best()
	maxH := int32(0)
	for _, m := range t.Order {
		if m.Height > maxH {
			maxH = m.Height
		}
	}

	// 1. header / state by hash
	for _, m := range t.Order {
		var hj hdrJSON
		r := get("/api/v1/chain/header/" + m.Hash)
		if r.Code != 200 || !r.JSON(&hj) || !hj.matches(m) {
			o.viol(c, "byhash.stored", "GET header/{hash} for a stored header", m.Hash, fmt.Sprintf("%d %s", r.Code, trunc(r.Body)))
		}
		var sj struct {
			Header    hdrJSON `json:"header"`
			State     string  `json:"state"`
			ChainWork string  `json:"chainWork"`
			Height    int32   `json:"height"`
		}
		r = get("/api/v1/chain/header/state/" + m.Hash)
		if r.Code != 200 || !r.JSON(&sj) || !sj.Header.matches(m) || sj.State != labels[m.Hash] || sj.Height != m.Height || sj.ChainWork != m.Cum.String() {
			o.viol(c, "bystate.stored", "GET header/state/{hash} must return that header with its current state", fmt.Sprint(m.Hash[:8], " ", labels[m.Hash], " h", m.Height), fmt.Sprintf("%d %s", r.Code, trunc(r.Body)))
		}
	}
	for _, bad := range []string{unknownHash, "xyz", unknownHash[:63]} {
		for _, route := range []string{"/api/v1/chain/header/", "/api/v1/chain/header/state/"} {
			r := get(route + bad)
			var ej errJSON
			if r.Code != 404 || !r.JSON(&ej) || ej.Code == "" {
				o.viol(c, "byhash.absent", "GET "+route+"{absent hash} must be a structured 404", 404, fmt.Sprintf("%d %s", r.Code, trunc(r.Body)))
			}
		}
	}

	// 1b. other spellings of a stored hash (upper case; leading zeros stripped): a route may refuse
	// them or treat them as the hash they spell - it must not answer anything else
	spell := func(h string) []string {
		var out []string
		if u := strings.ToUpper(h); u != h {
			out = append(out, u)
		}
		if z := strings.TrimLeft(h, "0"); z != h && z != "" {
			out = append(out, z)
		}
		return out
	}
	refusedOrSame := func(kind, target, canonical string) {
		r, rc := get(target), get(canonical)
		var ej errJSON
		is4xx := r.Code >= 400 && r.Code < 500 && r.JSON(&ej) && ej.Code != ""
		rep.Outcome("spelling:" + map[bool]string{true: "refused", false: "accepted"}[is4xx])
		if !is4xx && !(r.Code == rc.Code && string(r.Body) == string(rc.Body)) {
			o.viol(c, kind, "GET "+target+": another spelling of a stored hash must be refused or answered like the stored hash", fmt.Sprintf("4xx, or %d %s", rc.Code, trunc(rc.Body)), fmt.Sprintf("%d %s", r.Code, trunc(r.Body)))
		}
	}
	for _, m := range t.Order {
		for _, v := range spell(m.Hash) {
			refusedOrSame("spelling.byhash", "/api/v1/chain/header/"+v, "/api/v1/chain/header/"+m.Hash)
			refusedOrSame("spelling.bystate", "/api/v1/chain/header/state/"+v, "/api/v1/chain/header/state/"+m.Hash)
			for _, other := range t.Order {
				refusedOrSame("spelling.ancestors", "/api/v1/chain/header/"+v+"/"+other.Hash+"/ancestor", "/api/v1/chain/header/"+m.Hash+"/"+other.Hash+"/ancestor")
				refusedOrSame("spelling.ancestors", "/api/v1/chain/header/"+other.Hash+"/"+v+"/ancestor", "/api/v1/chain/header/"+other.Hash+"/"+m.Hash+"/ancestor")
			}
		}
	}

	// 2. by height windows
	counts := []string{"", "0", "1", "2", fmt.Sprint(maxH + 2)}
	for h := int32(-1); h <= maxH+1; h++ {
		for _, cs := range counts {
			q := fmt.Sprintf("/api/v1/chain/header/byHeight?height=%d", h)
			cnt := int32(1)
			if cs != "" {
				q += "&count=" + cs
				fmt.Sscan(cs, &cnt)
			}
			r := get(q)
			var hs []hdrJSON
			if r.Code != 200 || !r.JSON(&hs) {
				o.viol(c, "byheight.status", "GET "+q, 200, fmt.Sprintf("%d %s", r.Code, trunc(r.Body)))
				continue
			}
			got, dup := hashSet(hs)
			lo, hi := h, h+cnt-1
			allowed, required := map[string]bool{}, map[string]bool{}
			for _, m := range t.Order {
				if m.Height >= lo && m.Height <= hi {
					allowed[m.Hash] = true
					if labels[m.Hash] == core.LLongest {
						required[m.Hash] = true
					}
				}
			}
			bad := dup
			for x := range got {
				if !allowed[x] {
					bad = true
				}
			}
			for x := range required {
				if !got[x] {
					bad = true
				}
			}
			if bad {
				o.viol(c, "byheight.window", "GET "+q+": must hold only stored headers of the window and all longest-chain ones in it", "required "+keys(required)+" allowed "+keys(allowed), keys(got))
			}
		}
	}

	// 3. tips
	{
		r := get("/api/v1/chain/tip")
		var ts []struct {
			Header tipHdr `json:"header"`
			State  string `json:"state"`
			Height int32  `json:"height"`
		}
		if r.Code != 200 || !r.JSON(&ts) {
			o.viol(c, "tips.status", "GET /chain/tip", 200, fmt.Sprintf("%d %s", r.Code, trunc(r.Body)))
		} else {
			got := map[string]bool{}
			for _, x := range ts {
				if got[x.Header.Hash] {
					o.viol(c, "tips.duplicate", "a tip is listed twice", nil, x.Header.Hash)
				}
				got[x.Header.Hash] = true
				m := t.ByHash[x.Header.Hash]
				if m == nil || labels[m.Hash] != x.State || m.Height != x.Height {
					o.viol(c, "tips.fields", "tip entry does not describe a stored header", nil, x)
				}
			}
			required := map[string]bool{best.Hash: true}
			allowed := map[string]bool{best.Hash: true}
			for _, m := range t.Order {
				if labels[m.Hash] == core.LLongest {
					continue
				}
				ch := t.Children(m)
				if len(ch) == 0 {
					required[m.Hash] = true
					allowed[m.Hash] = true
					continue
				}
				onlyOrphans := true
				for _, k := range ch {
					if labels[k.Hash] != core.LOrphan {
						onlyOrphans = false
					}
				}
				if onlyOrphans && labels[m.Hash] == core.LStale {
					allowed[m.Hash] = true // the stale branch ends here; its children are orphans that arrived first
				}
			}
			bad := false
			for x := range got {
				if !allowed[x] {
					bad = true
				}
			}
			for x := range required {
				if !got[x] {
					bad = true
				}
			}
			if bad {
				o.viol(c, "tips.set", "GET /chain/tip must list the longest tip plus every leaf of a stale or orphan branch", "required "+keys(required)+" allowed "+keys(allowed), keys(got))
			}
		}
	}

	// 4. longest tip
	{
		r := get("/api/v1/chain/tip/longest")
		var x struct {
			Header tipHdr `json:"header"`
			State  string `json:"state"`
			Height int32  `json:"height"`
		}
		if r.Code != 200 || !r.JSON(&x) || x.Header.Hash != best.Hash || x.Height != best.Height || x.State != core.LLongest {
			o.viol(c, "tiplongest", "GET /chain/tip/longest", best.Hash, fmt.Sprintf("%d %s", r.Code, trunc(r.Body)))
		}
	}

	// 5. ancestors: all ordered pairs of stored hashes, plus unknown on either side
	type named struct {
		h string
		m *core.MHeader
	}
	var all []named
	for _, m := range t.Order {
		all = append(all, named{m.Hash, m})
	}
	all = append(all, named{unknownHash, nil})
	for _, rq := range all {
		for _, an := range all {
			r := get("/api/v1/chain/header/" + rq.h + "/" + an.h + "/ancestor")
			var hs []hdrJSON
			var ej errJSON
			is200 := r.Code == 200 && r.JSON(&hs)
			is4xx := r.Code >= 400 && r.Code < 500 && r.JSON(&ej) && ej.Code != ""
			desc := fmt.Sprintf("ancestors(hash=%s, ancestor=%s)", name(rq.m), name(an.m))
			switch {
			case rq.m == nil || an.m == nil:
				rep.Outcome("anc:unknown")
				if !is4xx {
					o.viol(c, "ancestors.unknown", desc+" with an unknown hash must be a structured 4xx", "4xx", fmt.Sprintf("%d %s", r.Code, trunc(r.Body)))
				}
			case an.m.Height > rq.m.Height:
				rep.Outcome("anc:ancestor_higher")
				if !is4xx {
					o.viol(c, "ancestors.higher", desc+": the named ancestor lies above the header; expected an error", "4xx", fmt.Sprintf("%d %s", r.Code, trunc(r.Body)))
				}
			case an.m == rq.m:
				rep.Outcome("anc:same")
				got, _ := hashSet(hs)
				delete(got, rq.h)
				if !is200 || len(got) != 0 {
					o.viol(c, "ancestors.same", desc+": path from a header to itself", "200 [] or [self]", fmt.Sprintf("%d %s", r.Code, trunc(r.Body)))
				}
			default:
				arr, hsh := t.AncArr(an.m, rq.m), t.AncHash(an.m, rq.m)
				if arr != hsh {
					rep.Outcome("anc:late_parent_lenient")
					if !is200 && !is4xx {
						o.viol(c, "ancestors.malformed", desc, "200 or structured 4xx", fmt.Sprintf("%d %s", r.Code, trunc(r.Body)))
					}
					continue
				}
				if arr {
					rep.Outcome("anc:path")
					incl, between := map[string]bool{}, map[string]bool{}
					for m := rq.m; m != nil; m = m.Parent {
						incl[m.Hash] = true
						if m != rq.m && m != an.m {
							between[m.Hash] = true
						}
						if m == an.m {
							break
						}
					}
					got, dup := hashSet(hs)
					bad := !is200 || dup
					for x := range got {
						if !incl[x] {
							bad = true
						}
					}
					for x := range between {
						if !got[x] {
							bad = true
						}
					}
					if bad {
						o.viol(c, "ancestors.path", desc+": must be exactly the parent-linked path", keys(incl), fmt.Sprintf("%d %s", r.Code, keys(got)))
					}
				} else {
					cls := "diff_height"
					if an.m.Height == rq.m.Height {
						cls = "equal_height"
					}
					rep.Outcome("anc:not_same_chain." + cls)
					if !is4xx || ej.Code != "ErrHeadersNotPartOfTheSameChain" {
						o.viol(c, "ancestors.not_same_chain."+cls, desc+": neither descends from the other; expected the same-chain error", "4xx ErrHeadersNotPartOfTheSameChain", fmt.Sprintf("%d %s", r.Code, trunc(r.Body)))
					}
				}
			}
		}
	}

	// 6. common ancestor: all subsets of size 1..3 of stored hashes, and one list with an unknown hash
	n := len(t.Order)
	var subsets [][]int
	for i := 0; i < n; i++ {
		subsets = append(subsets, []int{i})
		for j := i + 1; j < n; j++ {
			subsets = append(subsets, []int{i, j}, []int{j, i})
			for k := j + 1; k < n; k++ {
				subsets = append(subsets, []int{i, j, k})
			}
		}
	}
	post := func(list []string) core.Resp {
		b, _ := json.Marshal(list)
		rep.Evaluations++
		rep.Executions++
		return api.Do("POST", "/api/v1/chain/header/commonAncestor", b, hdr)
	}
	for _, ss := range subsets {
		var list []string
		var ms []*core.MHeader
		lenient := false
		minH := int32(1 << 30)
		for _, i := range ss {
			m := t.Order[i]
			ms = append(ms, m)
			list = append(list, m.Hash)
			if m.Height < minH {
				minH = m.Height
			}
			if t.LateParent(m) {
				lenient = true
			}
		}
		var want *core.MHeader
		for _, x := range t.Order {
			if x.Height >= minH {
				continue
			}
			okAll := true
			for _, m := range ms {
				if !t.AncArr(x, m) {
					okAll = false
				}
			}
			if okAll && (want == nil || x.Height > want.Height) {
				want = x
			}
		}
		r := post(list)
		switch {
		case lenient:
			rep.Outcome("ca:late_parent_lenient")
		case want == nil:
			rep.Outcome("ca:none") // the statement defines no answer; C16 judges the status code
		default:
			rep.Outcome("ca:exists")
			var hj hdrJSON
			if r.Code != 200 || !r.JSON(&hj) || hj.Hash != want.Hash {
				o.viol(c, "commonancestor.wrong", fmt.Sprintf("commonAncestor(%v)", names(ms)), name(want), fmt.Sprintf("%d %s", r.Code, trunc(r.Body)))
			}
		}
	}
	if r := post([]string{best.Hash, unknownHash}); r.Code == 200 {
		o.viol(c, "commonancestor.unknown", "commonAncestor with an unknown hash answered 200", "non-200", trunc(r.Body))
	}

	if after := core.Digest(core.DumpHeaders(c.Rig.DB)); after != before {
		o.viol(c, "read.modified_store", "reads changed the headers table", before, after)
	}
	rep.Sample(func() any {
		return map[string]any{"blueprint": c.U.B.String(), "arrival_order": append([]int{}, c.Seq...), "requests_in_this_state": "header/state by hash, byHeight windows, tips, tip/longest, all ordered ancestor pairs, all common-ancestor subsets <=3"}
	})
}

// tipHdr: the tips endpoints print work as a JSON number; only the identity is compared here.
type tipHdr struct {
	Hash string `json:"hash"`
}

func name(m *core.MHeader) string {
	if m == nil {
		return "unknown"
	}
	return fmt.Sprintf("n%d@h%d", m.Node, m.Height)
}

func names(ms []*core.MHeader) []string {
	var out []string
	for _, m := range ms {
		out = append(out, name(m))
	}
	return out
}
