package storewalk

import (
	"encoding/json"
	"fmt"

	"github.com/bitcoin-sv/block-headers-service/domains"
	"github.com/bitcoin-sv/block-headers-service/verifh/core"
)

func init() {
	props["C02"] = &propSpec{
		mk: func(rep *core.Report) core.Visitor { return &c02{rep: rep} },
		quick: []family{
			{Name: "all", N: 4, W: 2},
		},
		thorough: []family{
			{Name: "reorg-capable", N: 5, W: 2, Filter: hasFork},
			{Name: "all-bits3", N: 4, W: 3},
		},
		rule: "one evaluation = one (store, excess, root, height) verdict; non-trivial = the store has a stale or orphan header at a height that also holds a longest-chain header, or the history contained a reorganisation; distinct by (blueprint, arrival order)",
	}
}

// hasFork: at least two nodes share a parent that is a stored/genesis node.
func hasFork(b core.Blueprint) bool {
	cnt := map[int]int{}
	for i := 1; i <= b.N(); i++ {
		p := b.Nodes[i].Parent
		if p >= 0 {
			cnt[p]++
			if cnt[p] > 1 {
				return true
			}
		}
	}
	return false
}

type c02 struct {
	rep *core.Report
}

type mrItem struct {
	Root   string
	Height int32
}

type verdict struct {
	State string
	Hash  string
}

func modelVerdict(t *core.Tree, longest []*core.MHeader, excess int, it mrItem) verdict {
	tip := int64(len(longest) - 1)
	h := int64(it.Height)
	if h >= 0 && h <= tip && longest[h].Raw.Merkle.Hex() == it.Root {
		return verdict{"CONFIRMED", longest[h].Hash}
	}
	if h > tip && h-tip <= int64(excess) {
		return verdict{"UNABLE_TO_VERIFY", ""}
	}
	return verdict{"INVALID", ""}
}

func sev(s string) int {
	return map[string]int{"CONFIRMED": 0, "UNABLE_TO_VERIFY": 1, "INVALID": 2}[s]
}

func (o *c02) Transition(c *core.Ctx, ti core.TransInfo, res core.AddResult) bool {
	if ti.Reorg {
		o.rep.Outcome("reorg-transition")
	}
	return true
}

func (o *c02) State(c *core.Ctx) {
	if !c.Consistent {
		o.rep.Outcome("skipped:store diverges from C01 model")
		return
	}
	rep := o.rep
	longest := c.Model.LongestPath()
	tip := int32(len(longest) - 1)
	// non-trivial: a non-longest header shares a height with a longest one
	nt := false
	for _, m := range c.Model.Order {
		if int(m.Height) < len(longest) && longest[m.Height] != m {
			nt = true
		}
	}
	if nt {
		rep.DistinctNontrivial++
	}
	var roots []string
	for _, m := range c.Model.Order {
		roots = append(roots, m.Raw.Merkle.Hex())
	}
	roots = append(roots, "00000000000000000000000000000000000000000000000000000000deadbeef")
	before := core.Digest(c.Rows)
	api := c.Rig.NewAPI(core.APIOpts{})
	hdr := map[string]string{"Authorization": "Bearer " + c.Rig.Cfg.HTTP.AuthToken}
	// (the last excess value is "no limit" as an operator would write it: tip + excess passes MaxInt32)
	for _, excess := range []int{0, 1, 6, 2147483647} {
		c.Rig.Cfg.MerkleRoot.MaxBlockHeightExcess = excess
		var items []mrItem
		heights := []int32{-1, 2147483647}
		top := tip + 8
		if excess < 100 {
			top = tip + int32(excess) + 2
		} else {
			heights = append(heights, 2147483646, 2147483647-tip, 2147483647-tip-1)
		}
		for h := int32(0); h <= top; h++ {
			heights = append(heights, h)
		}
		for _, r := range roots {
			for _, h := range heights {
				items = append(items, mrItem{r, h})
			}
		}
		// (1) all items in one request through the service: one verdict per item, in order.
		req := make([]domains.MerkleRootConfirmationRequestItem, len(items))
		for i, it := range items {
			req[i] = domains.MerkleRootConfirmationRequestItem{MerkleRoot: it.Root, BlockHeight: it.Height}
		}
		got, err := c.Rig.Svc.Merkleroots.GetMerkleRootsConfirmations(req)
		rep.Executions++
		if err != nil || len(got) != len(items) {
			o.viol(c, "svc.count", fmt.Sprintf("service returned %d verdicts for %d items (err %v), excess %d", len(got), len(items), err, excess), len(items), len(got))
			continue
		}
		reps := map[string]mrItem{}
		for i, it := range items {
			want := modelVerdict(c.Model, longest, excess, it)
			rep.Evaluations++
			rep.Outcome("verdict:" + want.State)
			g := got[i]
			if string(g.Confirmation) != want.State || g.Hash != want.Hash || g.MerkleRoot != it.Root || g.BlockHeight != it.Height {
				kind := "verdict." + want.State + "->" + string(g.Confirmation)
				if string(g.Confirmation) == want.State {
					kind = "verdict.fields"
				}
				o.viol(c, kind, fmt.Sprintf("item %d (root %s.. height %d, excess %d, tip %d)", i, it.Root[:8], it.Height, excess, tip), want, map[string]any{"state": g.Confirmation, "hash": g.Hash, "root": g.MerkleRoot, "height": g.BlockHeight})
			}
			// representative per verdict subclass for the HTTP pair product
			cls := want.State
			if want.State == "INVALID" {
				switch {
				case it.Height < 0:
					cls += ".neg"
				case it.Height > tip:
					cls += ".far"
				case it.Root == roots[len(roots)-1]:
					cls += ".unknown_root"
				default:
					cls += ".wrong_root_at_height"
				}
			}
			if _, ok := reps[cls]; !ok {
				reps[cls] = it
			}
		}
		if excess != 6 {
			continue
		}
		// (2) HTTP: every ordered pair (duplicates included) of the representatives, and singles.
		var rl []mrItem
		for _, k := range []string{"CONFIRMED", "UNABLE_TO_VERIFY", "INVALID.neg", "INVALID.far", "INVALID.unknown_root", "INVALID.wrong_root_at_height"} {
			if it, ok := reps[k]; ok {
				rl = append(rl, it)
			}
		}
		var lists [][]mrItem
		for _, a := range rl {
			lists = append(lists, []mrItem{a})
			for _, b := range rl {
				lists = append(lists, []mrItem{a, b})
			}
		}
		lists = append(lists, items) // and the whole product in one request
		for _, l := range lists {
			o.httpVerify(c, api, hdr, longest, excess, l)
		}
		// items that leave fields out, sent after the full requests above: an omitted field is the
		// zero value, whatever earlier requests carried
		gr := longest[0].Raw.Merkle.Hex()
		o.httpVerifyRaw(c, api, hdr, longest, excess, []byte(`[{"merkleRoot":"`+gr+`"}]`), []mrItem{{gr, 0}})
		o.httpVerifyRaw(c, api, hdr, longest, excess, []byte(fmt.Sprintf(`[{"blockHeight":%d}]`, tip)), []mrItem{{"", tip}})
		o.httpVerifyRaw(c, api, hdr, longest, excess, []byte(`[{},{"merkleRoot":"`+gr+`"},null]`), []mrItem{{"", 0}, {gr, 0}, {"", 0}})
	}
	c.Rig.Cfg.MerkleRoot.MaxBlockHeightExcess = 6
	if after := core.Digest(core.DumpHeaders(c.Rig.DB)); after != before {
		o.viol(c, "read.modified_store", "verification changed the headers table", before, after)
	}
	rep.Sample(func() any {
		return map[string]any{"blueprint": c.U.B.String(), "arrival_order": append([]int{}, c.Seq...), "tip_height": tip,
			"example_item": map[string]any{"root": roots[0], "height": 0, "excess": 6, "verdict": modelVerdict(c.Model, longest, 6, mrItem{roots[0], 0})}}
	})
}

func (o *c02) httpVerify(c *core.Ctx, api *core.API, hdr map[string]string, longest []*core.MHeader, excess int, l []mrItem) {
	type reqItem struct {
		MerkleRoot  string `json:"merkleRoot"`
		BlockHeight int32  `json:"blockHeight"`
	}
	body := make([]reqItem, len(l))
	for i, it := range l {
		body[i] = reqItem{it.Root, it.Height}
	}
	b, _ := json.Marshal(body)
	o.httpVerifyRaw(c, api, hdr, longest, excess, b, l)
}

// httpVerifyRaw posts the body as it is and expects the verdicts of the given items (what the
// body means once omitted fields are read as their zero values).
func (o *c02) httpVerifyRaw(c *core.Ctx, api *core.API, hdr map[string]string, longest []*core.MHeader, excess int, b []byte, l []mrItem) {
	r := api.Do("POST", "/api/v1/chain/merkleroot/verify", b, hdr)
	o.rep.Executions++
	var resp struct {
		ConfirmationState string `json:"confirmationState"`
		Confirmations     []struct {
			BlockHash    string `json:"blockHash"`
			BlockHeight  int32  `json:"blockHeight"`
			MerkleRoot   string `json:"merkleRoot"`
			Confirmation string `json:"confirmation"`
		} `json:"confirmations"`
	}
	if r.Code != 200 || !r.JSON(&resp) {
		o.viol(c, "http.status", fmt.Sprintf("POST verify answered %d %s", r.Code, trunc(r.Body)), 200, r.Code)
		return
	}
	if len(resp.Confirmations) != len(l) {
		o.viol(c, "http.count", "number of verdicts differs from number of items", len(l), len(resp.Confirmations))
		return
	}
	worst := "CONFIRMED"
	for i, it := range l {
		want := modelVerdict(c.Model, longest, excess, it)
		o.rep.Evaluations++
		g := resp.Confirmations[i]
		if g.Confirmation != want.State || g.BlockHash != want.Hash || g.MerkleRoot != it.Root || g.BlockHeight != it.Height {
			o.viol(c, "http.verdict."+want.State+"->"+g.Confirmation, fmt.Sprintf("item %d of %d (root %.8s.. height %d) of body %s", i, len(l), it.Root, it.Height, trunc(b)), want, g)
		}
		if sev(want.State) > sev(worst) {
			worst = want.State
		}
	}
	if resp.ConfirmationState != worst {
		o.viol(c, "http.aggregate."+worst+"->"+resp.ConfirmationState, "overall verdict is not the worst individual one", worst, resp.ConfirmationState)
	}
}

func (o *c02) viol(c *core.Ctx, kind, what string, exp, obs any) {
	o.rep.Violate(core.Violation{Kind: kind, What: what, Replay: c.ReplayInfo(), Expected: exp, Observed: obs})
}

func trunc(b []byte) string {
	if len(b) > 300 {
		return string(b[:300]) + "..."
	}
	return string(b)
}
