package storewalk

import (
	"fmt"
	"os"
	"path/filepath"
	"time"

	"github.com/bitcoin-sv/block-headers-service/config"
	"github.com/bitcoin-sv/block-headers-service/domains"
	"github.com/bitcoin-sv/block-headers-service/internal/chaincfg"

	"github.com/bitcoin-sv/block-headers-service/internal/chaincfg/chainhash"
	"github.com/bitcoin-sv/block-headers-service/internal/wire"
	"github.com/bitcoin-sv/block-headers-service/verifh/core"
)

func init() {
	props["C13"] = &propSpec{
		mk: func(rep *core.Report) core.Visitor { return &c13{rep: rep, maxLoc: 2} },
		quick: []family{
			{Name: "all-equal-work", N: 4, W: 1},
			{Name: "forks", N: 4, W: 2, Filter: func(b core.Blueprint) bool { return hasFork(b) && noUnknown(b) }},
		},
		thorough: []family{
			{Name: "all", N: 4, W: 2},
			{Name: "all-equal-work", N: 5, W: 1},
		},
		rule: "one evaluation = one locator computation or one getheaders request (locator, stop) on one visited store compared with the reference; non-trivial = locator or stop contains a stale, orphan or unknown hash, or the store is one of the long (>2000 headers) stores; distinct by (store, locator, stop)",
	}
}

type c13 struct {
	rep    *core.Report
	maxLoc int
	// held: the previous non-empty answer, kept the way a queued headers message keeps it, and
	// what it has to be; it is looked at again after the next request has been served
	held     []*wire.BlockHeader
	heldWant []*core.MHeader
	heldDesc string
}

func (o *c13) viol(c *core.Ctx, kind, what string, exp, obs any) {
	var rp any = map[string]any{"engine": "storewalk", "long_store_case": what}
	if c != nil {
		rp = c.ReplayInfo()
	}
	o.rep.Violate(core.Violation{Kind: kind, What: what, Replay: rp, Expected: exp, Observed: obs})
}

func (o *c13) Transition(c *core.Ctx, ti core.TransInfo, res core.AddResult) bool { return true }

func chash(hex string) *chainhash.Hash {
	h, err := chainhash.NewHashFromStr(hex)
	if err != nil {
		panic(err)
	}
	return h
}

// expectAnswer computes the reference answer to getheaders(locator, stop).
// lenientEmpty: the statement does not define an empty locator (the repository's own
// suite pins an error for it); then either nothing or the from-height-1 answer is accepted.
func expectAnswer(t *core.Tree, longest []*core.MHeader, labels map[string]string, loc []string, stop string) (want []*core.MHeader) {
	start := 0
	for _, h := range loc {
		if m := t.ByHash[h]; m != nil && labels[h] == core.LLongest && int(m.Height) > start {
			start = int(m.Height)
		}
	}
	end := start + 2000
	if m := t.ByHash[stop]; m != nil && labels[stop] == core.LLongest {
		if int(m.Height) <= start {
			return nil
		}
		if int(m.Height) < end {
			end = int(m.Height)
		}
	}
	if end > len(longest)-1 {
		end = len(longest) - 1
	}
	for h := start + 1; h <= end; h++ {
		want = append(want, longest[h])
	}
	return want
}

func sameHeaders(got []*wire.BlockHeader, want []*core.MHeader) bool {
	if len(got) != len(want) {
		return false
	}
	for i, g := range got {
		w := want[i].Raw
		if g.Version != w.Version || core.Hash32(g.PrevBlock) != w.Prev || core.Hash32(g.MerkleRoot) != w.Merkle ||
			g.Timestamp.Unix() != int64(w.Time) || g.Bits != w.Bits || g.Nonce != w.Nonce {
			return false
		}
	}
	return true
}

func heightsOf(t *core.Tree, got []*wire.BlockHeader) []string {
	var out []string
	for _, g := range got {
		r := core.RawHeader{Version: g.Version, Prev: core.Hash32(g.PrevBlock), Merkle: core.Hash32(g.MerkleRoot), Time: uint32(g.Timestamp.Unix()), Bits: g.Bits, Nonce: g.Nonce}
		if m := t.ByHash[r.Hash().Hex()]; m != nil {
			out = append(out, fmt.Sprintf("h%d", m.Height))
		} else {
			out = append(out, "?")
		}
	}
	if len(out) > 12 {
		out = append(out[:6], append([]string{fmt.Sprintf("...(%d)...", len(out)-12)}, out[len(out)-6:]...)...)
	}
	return out
}

func wantHeights(want []*core.MHeader) string {
	if len(want) == 0 {
		return "nothing"
	}
	return fmt.Sprintf("h%d..h%d (%d)", want[0].Height, want[len(want)-1].Height, len(want))
}

// checkRequest runs one getheaders request through both service entry points.
func (o *c13) checkRequest(c *core.Ctx, rig *core.Rig, t *core.Tree, longest []*core.MHeader, labels map[string]string, loc []string, stop string, desc string) {
	o.rep.Evaluations++
	o.rep.Executions++
	var l []*chainhash.Hash
	for _, h := range loc {
		l = append(l, chash(h))
	}
	st := &chainhash.Hash{}
	if stop != "" {
		st = chash(stop)
	}
	want := expectAnswer(t, longest, labels, loc, stop)
	got, err := rig.Svc.Headers.LocateHeadersGetHeaders(l, st)
	// an answer belongs to its request: the one handed out before must not change because
	// another request was served (two peers asking, one peer pipelining)
	if o.held != nil && !sameHeaders(o.held, o.heldWant) {
		o.viol(c, "getheaders.answer_changed_by_next_request", o.heldDesc+": the answer was correct when it was returned and differs after the next request ("+desc+") was served", wantHeights(o.heldWant), heightsOf(t, o.held))
	}
	o.held, o.heldWant, o.heldDesc = nil, nil, ""
	if err == nil && len(got) > 0 && sameHeaders(got, want) {
		o.held, o.heldWant, o.heldDesc = got, want, desc
	}
	got2 := rig.Svc.Headers.LocateHeaders(l, st)
	g2 := make([]*wire.BlockHeader, len(got2))
	for i := range got2 {
		g2[i] = &got2[i]
	}
	if len(loc) == 0 {
		o.rep.Outcome("req:empty_locator(lenient)")
		if len(got) != 0 && !sameHeaders(got, want) {
			o.viol(c, "getheaders.empty_locator", desc+": neither nothing nor the from-height-1 answer", wantHeights(want), heightsOf(t, got))
		}
		return
	}
	if len(want) == 0 {
		o.rep.Outcome("req:nothing")
	} else {
		o.rep.Outcome("req:headers")
	}
	kind := ""
	switch {
	case len(want) == 0 && (len(got) != 0 || len(got2) != 0):
		kind = "getheaders.expected_nothing"
		if m := t.ByHash[stop]; m != nil && m.Height == 0 {
			kind = "getheaders.stop_is_genesis"
		}
	case len(want) > 0 && err != nil:
		kind = "getheaders.error"
	case !sameHeaders(got, want):
		kind = "getheaders.wrong_headers"
		if len(got) == len(want) {
			kind = "getheaders.wrong_order_or_content"
		}
	case !sameHeaders(g2, want):
		kind = "getheaders.locateheaders_differs"
	}
	if kind != "" {
		o.viol(c, kind, desc, wantHeights(want), fmt.Sprintf("%v err=%v", heightsOf(t, got), err))
	}
}

func (o *c13) checkLocator(c *core.Ctx, rig *core.Rig, t *core.Tree, longest []*core.MHeader, labels map[string]string) {
	o.rep.Evaluations++
	loc := rig.Svc.Headers.LatestHeaderLocator()
	tip := len(longest) - 1
	bad := ""
	var hs []int
	for _, h := range loc {
		m := t.ByHash[h.String()]
		if m == nil || labels[m.Hash] != core.LLongest {
			bad = "entry is not a longest-chain header"
			break
		}
		hs = append(hs, int(m.Height))
	}
	if bad == "" {
		switch {
		case len(hs) == 0 || hs[0] != tip:
			bad = "does not start at the tip"
		case hs[len(hs)-1] != 0:
			bad = "does not end at genesis"
		}
	}
	if bad == "" {
		doubling := false
		prevGap := 0
		for i := 1; i < len(hs); i++ {
			gap := hs[i-1] - hs[i]
			last := i == len(hs)-1
			switch {
			case gap <= 0:
				bad = "heights not strictly descending"
			case !doubling && gap == 1:
			case !doubling && gap > 1:
				if i <= 10 && !last {
					bad = fmt.Sprintf("step %d already at entry %d (the first entries must step one block at a time)", gap, i)
				}
				doubling = true
			case doubling && !last && gap != 2*prevGap:
				bad = fmt.Sprintf("step %d after step %d is not a doubling", gap, prevGap)
			case doubling && last && gap > 2*prevGap:
				bad = "last step exceeds the doubling"
			}
			prevGap = gap
			if bad != "" {
				break
			}
		}
		// a locator must stay logarithmic: with doubling steps its length is bounded
		if bad == "" && tip > 12 && len(hs) > 14+bitsLen(tip) {
			bad = "locator is longer than 12 + log2(height) entries"
		}
	}
	if bad != "" {
		o.viol(c, "locator", "LatestHeaderLocator: "+bad, fmt.Sprintf("tip %d", tip), hs)
	}
}

func bitsLen(n int) int {
	k := 0
	for ; n > 0; n >>= 1 {
		k++
	}
	return k
}

func (o *c13) State(c *core.Ctx) {
	if !c.Consistent {
		o.rep.Outcome("skipped:store diverges from C01 model")
		return
	}
	t := c.Model
	longest := t.LongestPath()
	labels := t.Labels()
	if nontrivial(c) {
		o.rep.DistinctNontrivial++
	}
	before := core.Digest(c.Rows)
	o.checkLocator(c, c.Rig, t, longest, labels)
	var hashes []string
	for _, m := range t.Order {
		hashes = append(hashes, m.Hash)
	}
	hashes = append(hashes, unknownHash)
	stops := append([]string{""}, hashes...)
	var locs [][]string
	locs = append(locs, nil)
	for _, a := range hashes {
		locs = append(locs, []string{a})
		for _, b := range hashes {
			if a == b {
				continue
			}
			locs = append(locs, []string{a, b})
			if o.maxLoc >= 3 || core.GetEnv().Tier == "thorough" {
				for _, d := range hashes {
					if d != a && d != b {
						locs = append(locs, []string{a, b, d})
					}
				}
			}
		}
	}
	for _, l := range locs {
		for _, s := range stops {
			o.checkRequest(c, c.Rig, t, longest, labels, l, s, fmt.Sprintf("getheaders(locator=%v, stop=%s)", short(t, l), short(t, []string{s})))
		}
	}
	if after := core.Digest(core.DumpHeaders(c.Rig.DB)); after != before {
		o.viol(c, "read.modified_store", "locating headers changed the table", before, after)
	}
	o.rep.Sample(func() any {
		return map[string]any{"blueprint": c.U.B.String(), "arrival_order": append([]int{}, c.Seq...), "locators": len(locs), "stops": len(stops)}
	})
}

func short(t *core.Tree, l []string) []string {
	var out []string
	for _, h := range l {
		switch m := t.ByHash[h]; {
		case h == "":
			out = append(out, "zero")
		case m == nil:
			out = append(out, "unknown")
		default:
			out = append(out, name(m))
		}
	}
	return out
}

// Finish: the long stores (more than one reply's worth of headers), built through the real
// Chains.Add, with locators and stops at the boundaries of the 2000 cap and of the locator's
// step pattern.
func (o *c13) Finish() {
	env := core.GetEnv()
	type long struct {
		name     string
		n        int
		staleAt  int // height of a stale sibling branch (0 = none)
		staleLen int
	}
	stores := []long{{"linear-2005", 2005, 0, 0}, {"linear-4100", 4100, 0, 0}, {"stale-branch-2100", 2100, 64, 3}}
	for si, ls := range stores {
		if !env.Mine(si) {
			continue
		}
		rig := core.NewRig(core.RigOpts{})
		t := core.NewTree()
		add := func(raw core.RawHeader) *core.MHeader {
			_, m := t.Add(-1, raw)
			res := core.SafeAdd(rig.Svc.Chains, raw.Source())
			if res.Code() != "stored" {
				o.rep.HarnessError("long store " + ls.name + ": Add failed: " + res.Code())
			}
			return m
		}
		prev := core.GenesisRaw().Hash()
		var stalePrev core.Hash32
		mk := func(p core.Hash32, i int, salt byte) core.RawHeader {
			var m core.Hash32
			m[0], m[1], m[2], m[3] = byte(i), byte(i>>8), byte(i>>16), salt
			return core.RawHeader{Version: 1, Prev: p, Merkle: m, Time: 1600000000 + uint32(i), Bits: core.BitsLight, Nonce: uint32(i)}
		}
		var stale []string
		for i := 1; i <= ls.n; i++ {
			if i == ls.staleAt {
				stalePrev = prev
			}
			raw := mk(prev, i, 0)
			add(raw)
			prev = raw.Hash()
			if ls.staleAt > 0 && i == ls.staleAt+ls.staleLen {
				sp := stalePrev
				for k := 0; k < ls.staleLen; k++ {
					sr := mk(sp, ls.staleAt+k, 9)
					m := add(sr)
					stale = append(stale, m.Hash)
					sp = sr.Hash()
				}
			}
		}
		rows := core.DumpHeaders(rig.DB)
		if ok, why := core.CheckConsistent(rows, t); !ok {
			o.viol(nil, "long.inconsistent", ls.name+": "+why, nil, nil)
			rig.Close()
			continue
		}
		longest := t.LongestPath()
		labels := t.Labels()
		tip := len(longest) - 1
		o.rep.States++
		o.rep.DistinctNontrivial++
		o.checkLocator(nil, rig, t, longest, labels)
		hs := map[int]bool{}
		for _, h := range []int{0, 1, 2, 9, 10, 11, 12, 13, 14, tip - 2001, tip - 2000, tip - 1999, tip - 1, tip} {
			hs[h] = true
		}
		for p := 1; p <= tip; p *= 2 {
			hs[p-1], hs[p], hs[p+1] = true, true, true
		}
		for start := range hs {
			if start < 0 || start > tip {
				continue
			}
			stopsH := []int{-1, start - 1, start, start + 1, start + 1999, start + 2000, start + 2001, tip}
			var stops []string
			for _, sh := range stopsH {
				switch {
				case sh == -1:
					stops = append(stops, "")
				case sh >= 0 && sh <= tip:
					stops = append(stops, longest[sh].Hash)
				}
			}
			stops = append(stops, unknownHash)
			if len(stale) > 0 {
				stops = append(stops, stale[len(stale)-1])
			}
			locs := [][]string{{longest[start].Hash}, {unknownHash, longest[start].Hash}}
			if start > 0 {
				locs = append(locs, []string{longest[start].Hash, longest[start-1].Hash, longest[0].Hash})
			}
			if len(stale) > 0 {
				locs = append(locs, []string{stale[len(stale)-1], longest[start].Hash}, []string{stale[0]})
			}
			for _, l := range locs {
				for _, s := range stops {
					o.checkRequest(nil, rig, t, longest, labels, l, s, fmt.Sprintf("%s: getheaders(locator=%v, stop=%s)", ls.name, short(t, l), short(t, []string{s})))
				}
			}
		}
		o.rep.Samples = append(o.rep.Samples, map[string]any{"long_store": ls.name, "tip": tip, "locator_starts": len(hs)})
		rig.Close()
	}
	if env.Mine(3) {
		o.otherNetworks()
	}
}

// otherNetworks: the same questions on a service configured for another network (its own genesis
// block, written by database.Init): a linear chain of 30 headers, locators at a few heights, stops
// zero / ahead / at the start / the network's genesis / the main network's genesis (unknown here).
func (o *c13) otherNetworks() {
	for _, net := range []config.NetworkType{config.RegTestNet, config.TestNet} {
		path := filepath.Join(core.Scratch(), "net-"+string(net)+".db")
		_ = os.Remove(path)
		rig := core.OpenRig(path, core.RigOpts{ReInit: true, Cfg: func(c *config.AppConfig) { c.P2P.ChainNetType = net }})
		params := rig.Cfg.P2P.GetNetParams()
		gen := params.GenesisBlock.Header
		chain := []wire.BlockHeader{gen}
		okBuild := true
		for i := 1; i <= 30; i++ {
			var m chainhash.Hash
			m[0], m[1] = byte(i), 0x77
			h := wire.BlockHeader{Version: 1, PrevBlock: chain[i-1].BlockHash(), MerkleRoot: m, Timestamp: time.Unix(int64(1600000000+i), 0), Bits: core.BitsLight, Nonce: uint32(i)}
			if res := core.SafeAdd(rig.Svc.Chains, domains.BlockHeaderSource(h)); res.Code() != "stored" {
				o.viol(nil, "othernet.add", fmt.Sprintf("%s: Add of header %d on top of the network's genesis answered %s", net, i, res.Code()), "stored", res.Code())
				okBuild = false
				break
			}
			chain = append(chain, h)
		}
		if okBuild {
			hashAt := func(i int) *chainhash.Hash { h := chain[i].BlockHash(); return &h }
			mainGen := *chaincfg.MainNetParams.GenesisHash
			zero := chainhash.Hash{}
			for _, start := range []int{0, 1, 10, 29, 30} {
				stops := map[string]*chainhash.Hash{"zero": &zero, "own genesis": hashAt(0), "main network's genesis (unknown here)": &mainGen, "at start": hashAt(start)}
				if start+5 <= 30 {
					stops["ahead"] = hashAt(start + 5)
				}
				for name, st := range stops {
					want := 30 - start
					switch name {
					case "own genesis", "at start":
						want = 0
					case "ahead":
						want = 5
					}
					got, err := rig.Svc.Headers.LocateHeadersGetHeaders([]*chainhash.Hash{hashAt(start)}, st)
					o.rep.Evaluations++
					o.rep.Executions++
					o.rep.DistinctNontrivial++
					ok := len(got) == want && (err == nil || want == 0)
					for i := 0; ok && i < len(got); i++ {
						ok = got[i].BlockHash() == chain[start+1+i].BlockHash()
					}
					if !ok {
						o.viol(nil, "othernet.getheaders", fmt.Sprintf("network %s: getheaders(locator=[height %d], stop=%s)", net, start, name), fmt.Sprintf("%d headers from height %d", want, start+1), fmt.Sprintf("%d headers, err=%v", len(got), err))
					}
				}
			}
			o.rep.States++
			o.rep.Outcome("other-network:" + string(net))
		}
		rig.Close()
	}
}
