// Package storewalk is engine E1: explicit-state search over every header store reachable
// by ingestion (every arrival order of every subset of every blueprint), on the real
// SQLite-backed stack, with one oracle per property.
package storewalk

import (
	"encoding/json"
	"fmt"
	"os"
	"testing"

	"github.com/bitcoin-sv/block-headers-service/verifh/core"
)

// family is one enumerated set of blueprints.
type family struct {
	N         int
	W         int
	WSet      []uint32 // explicit difficulty alphabet (overrides W)
	Forbidden bool     // additionally: each node in turn on the forbidden list
	Filter    func(core.Blueprint) bool
	Name      string
}

type propSpec struct {
	mk       func(rep *core.Report) core.Visitor
	quick    []family
	thorough []family
	rule     string
	opts     core.WalkOpts
}

var props = map[string]*propSpec{}

func TestMain(m *testing.M) {
	code := m.Run()
	core.Cleanup()
	os.Exit(code)
}

// TestCheck is the shard entry point: VERIF_PROP selects the oracle, VERIF_TIER the bound,
// VERIF_SHARD the slice of blueprints, VERIF_OUT the report file. With VERIF_REPLAY set it
// re-executes exactly one recorded case instead.
func TestCheck(t *testing.T) {
	env := core.GetEnv()
	spec := props[env.Prop]
	if spec == nil {
		t.Fatalf("unknown VERIF_PROP %q", env.Prop)
	}
	rep := core.NewReport(env, "storewalk")
	rep.Rule = spec.rule
	v := spec.mk(rep)
	if env.Replay != "" {
		replay(t, env, rep, v, spec)
		return
	}
	fams := spec.quick
	if env.Tier == "thorough" {
		fams = spec.thorough
	}
	idx := 0
	bound := ""
	for _, f := range fams {
		bound += fmt.Sprintf("[%s N=%d |W|=%d forbidden=%v] ", f.Name, f.N, max(f.W, len(f.WSet)), f.Forbidden)
		w := core.WAlphabet(f.W)
		if f.WSet != nil {
			w = f.WSet
		}
		core.EnumBlueprints(f.N, w, func(_ int, b core.Blueprint) {
			if f.Filter != nil && !f.Filter(b) {
				return
			}
			fl := []int{0}
			if f.Forbidden {
				fl = nil
				for k := 1; k <= f.N; k++ {
					fl = append(fl, k)
				}
			}
			for _, fb := range fl {
				idx++
				if !env.Mine(idx) || rep.Expired() {
					continue
				}
				u := core.Fabricate(b, 0)
				core.Walk(u, fb, idx, rep, v, spec.opts)
			}
		})
	}
	rep.Bound = bound
	rep.Extra["work_items_total"] = idx
	if fin, ok := v.(interface{ Finish() }); ok {
		fin.Finish()
	}
	rep.Write(env.Out)
}

type replayFile struct {
	Replay struct {
		Blueprint core.Blueprint `json:"blueprint"`
		Forbidden int            `json:"forbidden"`
		Seq       []int          `json:"seq"`
		Case      string         `json:"case"`
		LongCase  string         `json:"long_store_case"`
	} `json:"replay"`
	Kind string `json:"kind"`
}

// replay re-executes one recorded history without the explorer: the recorded arrival order
// is submitted step by step and the oracle runs on every prefix.
func replay(t *testing.T, env core.Env, rep *core.Report, v core.Visitor, spec *propSpec) {
	b, err := os.ReadFile(env.Replay)
	if err != nil {
		t.Fatal(err)
	}
	var rf replayFile
	if err := json.Unmarshal(b, &rf); err != nil {
		t.Fatal(err)
	}
	if rf.Replay.Case != "" || rf.Replay.LongCase != "" {
		// a directed case (deep reorganisation, long stores): it lives in the oracle's Finish
		rep.Bound = "replay of " + env.Replay + " (directed case, re-executed by the oracle's Finish)"
		if fin, ok := v.(interface{ Finish() }); ok {
			fin.Finish()
		}
		rep.Write(env.Out)
		return
	}
	u := core.Fabricate(rf.Replay.Blueprint, 0)
	core.ReplaySeq(u, rf.Replay.Forbidden, rf.Replay.Seq, rep, v, spec.opts)
	rep.Bound = "replay of " + env.Replay
	rep.Write(env.Out)
}
