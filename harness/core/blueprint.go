package core

import (
	"crypto/sha256"
	"encoding/binary"
	"encoding/hex"
	"fmt"
	"math/big"
	"strings"
	"time"

	"github.com/bitcoin-sv/block-headers-service/domains"
	"github.com/bitcoin-sv/block-headers-service/internal/chaincfg"
	"github.com/bitcoin-sv/block-headers-service/internal/chaincfg/chainhash"
)

// Parent codes of a blueprint node.
const (
	ParentUnknown = -1 // a hash nobody ever stores
	ParentGenesis = 0
)

// Bits alphabet. Work values by the independent reference: 2, 2^32+..., 0, 0.
const (
	BitsLight    uint32 = 0x207fffff // regtest-like, work 2
	BitsHeavy    uint32 = 0x1d00ffff // genesis difficulty, work 4295032833
	BitsZero     uint32 = 0x00000000 // target 0 -> work 0
	BitsNegative uint32 = 0x04923456 // sign bit set -> negative target -> work 0
	BitsHuge     uint32 = 0x19015555 // work about 0.75 * 2^64: two of them cross the 64-bit boundary
	BitsMax      uint32 = 0x01010000 // target 1 -> work 2^255: two of them cross 2^256
)

// WAlphabet returns the first n entries of the difficulty alphabet.
func WAlphabet(n int) []uint32 {
	all := []uint32{BitsLight, BitsHeavy, BitsZero, BitsNegative}
	return all[:n]
}

// BNode is one node of a blueprint.
type BNode struct {
	Parent int    `json:"parent"`
	Bits   uint32 `json:"bits"`
}

// Blueprint is a labelled forest on nodes 1..N (Nodes[0] is unused: 0 denotes genesis).
type Blueprint struct {
	Nodes []BNode `json:"nodes"`
	// TimeBase is the timestamp of node 0's successor minus 600 s (0 = 1600000000). The synctest
	// clock starts at 2000-01-01, so a base before 1999 makes every header older than 24 h.
	TimeBase uint32 `json:"time_base,omitempty"`
}

// N is the number of nodes.
func (b Blueprint) N() int { return len(b.Nodes) - 1 }

func (b Blueprint) String() string {
	var sb strings.Builder
	for i := 1; i <= b.N(); i++ {
		n := b.Nodes[i]
		p := fmt.Sprint(n.Parent)
		switch n.Parent {
		case ParentUnknown:
			p = "?"
		case ParentGenesis:
			p = "G"
		}
		fmt.Fprintf(&sb, "%d<-%s/%08x ", i, p, n.Bits)
	}
	return strings.TrimSpace(sb.String())
}

// EnumBlueprints calls fn for every blueprint with n nodes over difficulty alphabet w:
// parent(i) in {unknown, genesis, 1..i-1}, bits(i) in w. (n+1)! * |w|^n blueprints,
// enumerated in a fixed order; idx is the ordinal (used for sharding).
func EnumBlueprints(n int, w []uint32, fn func(idx int, b Blueprint)) int {
	nodes := make([]BNode, n+1)
	idx := 0
	var rec func(i int)
	rec = func(i int) {
		if i > n {
			cp := make([]BNode, n+1)
			copy(cp, nodes)
			fn(idx, Blueprint{Nodes: cp})
			idx++
			return
		}
		for p := -1; p < i; p++ {
			for _, bits := range w {
				nodes[i] = BNode{Parent: p, Bits: bits}
				rec(i + 1)
			}
		}
	}
	rec(1)
	return idx
}

// Hash32 is a hash in internal (wire) byte order.
type Hash32 [32]byte

// Hex is the display form (byte-reversed hex), as the API prints hashes.
func (h Hash32) Hex() string {
	var r [32]byte
	for i := 0; i < 32; i++ {
		r[i] = h[31-i]
	}
	return hex.EncodeToString(r[:])
}

// RawHeader is the harness's own idea of an 80-byte header.
type RawHeader struct {
	Version int32
	Prev    Hash32
	Merkle  Hash32
	Time    uint32
	Bits    uint32
	Nonce   uint32
}

// Serialize80 is an independently written serialiser of the 80-byte header.
func (r RawHeader) Serialize80() [80]byte {
	var b [80]byte
	binary.LittleEndian.PutUint32(b[0:4], uint32(r.Version))
	copy(b[4:36], r.Prev[:])
	copy(b[36:68], r.Merkle[:])
	binary.LittleEndian.PutUint32(b[68:72], r.Time)
	binary.LittleEndian.PutUint32(b[72:76], r.Bits)
	binary.LittleEndian.PutUint32(b[76:80], r.Nonce)
	return b
}

// Hash is SHA-256d of the serialisation, by the standard library only.
func (r RawHeader) Hash() Hash32 {
	b := r.Serialize80()
	h1 := sha256.Sum256(b[:])
	return Hash32(sha256.Sum256(h1[:]))
}

// Source converts to the type Chains.Add accepts.
func (r RawHeader) Source() domains.BlockHeaderSource {
	return domains.BlockHeaderSource{
		Version:    r.Version,
		PrevBlock:  chainhash.Hash(r.Prev),
		MerkleRoot: chainhash.Hash(r.Merkle),
		Timestamp:  time.Unix(int64(r.Time), 0),
		Bits:       r.Bits,
		Nonce:      r.Nonce,
	}
}

// GenesisRaw is the active network's genesis header in harness form.
func GenesisRaw() RawHeader {
	g := chaincfg.MainNetParams.GenesisBlock.Header
	return RawHeader{
		Version: g.Version,
		Prev:    Hash32(g.PrevBlock),
		Merkle:  Hash32(g.MerkleRoot),
		Time:    uint32(g.Timestamp.Unix()),
		Bits:    g.Bits,
		Nonce:   g.Nonce,
	}
}

var nodeVersions = []int32{1, -1, 0x20000000, 2, -2147483648, 2147483647, 4}
var nodeNonces = []uint32{0xffffffff, 0, 1, 0x80000000, 0x7fffffff, 42, 7}

// Universe is a blueprint with fabricated headers: Raw[i] for node i (Raw[0] = genesis).
type Universe struct {
	B   Blueprint
	Raw []RawHeader
	H   []Hash32
}

// Fabricate builds the headers of a blueprint. Fields other than prev and bits are fixed
// functions of the node number; merkle roots are pairwise distinct; the salt lets a caller
// build several universes with disjoint hashes.
func Fabricate(b Blueprint, salt byte) *Universe {
	n := b.N()
	timeBase := uint32(1600000000)
	if b.TimeBase != 0 {
		timeBase = b.TimeBase
	}
	u := &Universe{B: b, Raw: make([]RawHeader, n+1), H: make([]Hash32, n+1)}
	u.Raw[0] = GenesisRaw()
	u.H[0] = u.Raw[0].Hash()
	for i := 1; i <= n; i++ {
		var prev Hash32
		switch p := b.Nodes[i].Parent; p {
		case ParentUnknown:
			for k := range prev {
				prev[k] = 0xee
			}
			prev[0] = byte(i)
			prev[1] = salt
		default:
			prev = u.H[p]
		}
		var m Hash32
		for k := range m {
			m[k] = byte(0x10*i + k)
		}
		m[31] = salt
		u.Raw[i] = RawHeader{
			Version: nodeVersions[i%len(nodeVersions)],
			Prev:    prev,
			Merkle:  m,
			Time:    timeBase + uint32(i)*600,
			Bits:    b.Nodes[i].Bits,
			Nonce:   nodeNonces[i%len(nodeNonces)],
		}
		u.H[i] = u.Raw[i].Hash()
	}
	return u
}

// RefTarget decodes compact bits by the textbook definition (independent of domains).
func RefTarget(bits uint32) *big.Int {
	mant := int64(bits & 0x007fffff)
	exp := int(bits >> 24)
	neg := bits&0x00800000 != 0
	t := big.NewInt(mant)
	if exp >= 3 {
		t.Mul(t, new(big.Int).Exp(big.NewInt(256), big.NewInt(int64(exp-3)), nil))
	} else {
		t.Quo(t, new(big.Int).Exp(big.NewInt(256), big.NewInt(int64(3-exp)), nil))
	}
	if neg {
		t.Neg(t)
	}
	return t
}

// RefWork is floor(2^256/(target+1)), zero for non-positive targets.
func RefWork(bits uint32) *big.Int {
	t := RefTarget(bits)
	if t.Sign() <= 0 {
		return big.NewInt(0)
	}
	num := new(big.Int).Exp(big.NewInt(2), big.NewInt(256), nil)
	return num.Quo(num, t.Add(t, big.NewInt(1)))
}
