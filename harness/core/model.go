package core

import (
	"math/big"
	"sort"
)

// Labels as the API prints them.
const (
	LLongest = "LONGEST_CHAIN"
	LStale   = "STALE"
	LOrphan  = "ORPHAN"
)

// MHeader is one stored header of the reference model.
type MHeader struct {
	Node    int // blueprint node (0 = genesis), -1 if not from a blueprint
	Raw     RawHeader
	Hash    string // display hex
	Prev    string
	Height  int32
	Work    *big.Int
	Cum     *big.Int
	Orphan  bool
	Arrival int
	Parent  *MHeader // stored parent at arrival time (nil if unknown)
}

// AddOutcome is what the model predicts for one submission.
type AddOutcome int

const (
	OutStored AddOutcome = iota
	OutDuplicate
	OutForbidden
)

func (o AddOutcome) String() string {
	return [...]string{"stored", "duplicate", "forbidden"}[o]
}

// Tree is the boring reference: stored headers in arrival order.
type Tree struct {
	ByHash    map[string]*MHeader
	Order     []*MHeader
	Forbidden map[string]bool
}

// NewTree returns a model holding only genesis.
func NewTree() *Tree {
	g := GenesisRaw()
	w := RefWork(g.Bits)
	gh := &MHeader{Node: 0, Raw: g, Hash: g.Hash().Hex(), Prev: g.Prev.Hex(), Height: 0, Work: w, Cum: new(big.Int).Set(w)}
	return &Tree{ByHash: map[string]*MHeader{gh.Hash: gh}, Order: []*MHeader{gh}, Forbidden: map[string]bool{}}
}

// Add submits a header to the model.
func (t *Tree) Add(node int, r RawHeader) (AddOutcome, *MHeader) {
	h := r.Hash().Hex()
	if old, ok := t.ByHash[h]; ok {
		return OutDuplicate, old
	}
	if t.Forbidden[h] {
		return OutForbidden, nil
	}
	m := &MHeader{Node: node, Raw: r, Hash: h, Prev: r.Prev.Hex(), Work: RefWork(r.Bits), Arrival: len(t.Order)}
	p := t.ByHash[m.Prev]
	switch {
	case p == nil:
		m.Orphan = true
		m.Height = 1
		m.Cum = new(big.Int).Set(m.Work)
	default:
		m.Parent = p
		m.Orphan = p.Orphan
		m.Height = p.Height + 1
		m.Cum = new(big.Int).Add(p.Cum, m.Work)
	}
	t.ByHash[h] = m
	t.Order = append(t.Order, m)
	return OutStored, m
}

// Best is the genesis-connected header with the greatest cumulative work, earliest
// stored among equals.
func (t *Tree) Best() *MHeader {
	var best *MHeader
	for _, m := range t.Order {
		if m.Orphan {
			continue
		}
		if best == nil || m.Cum.Cmp(best.Cum) > 0 {
			best = m
		}
	}
	return best
}

// Labels computes every stored header's chain-state label from scratch.
func (t *Tree) Labels() map[string]string {
	out := make(map[string]string, len(t.Order))
	for _, m := range t.Order {
		if m.Orphan {
			out[m.Hash] = LOrphan
		} else {
			out[m.Hash] = LStale
		}
	}
	for m := t.Best(); m != nil; m = m.Parent {
		out[m.Hash] = LLongest
	}
	return out
}

// LongestPath returns the longest chain in ascending height, genesis first.
func (t *Tree) LongestPath() []*MHeader {
	var rev []*MHeader
	for m := t.Best(); m != nil; m = m.Parent {
		rev = append(rev, m)
	}
	for i, j := 0, len(rev)-1; i < j; i, j = i+1, j-1 {
		rev[i], rev[j] = rev[j], rev[i]
	}
	return rev
}

// AncArr reports whether a is b or an ancestor of b through arrival-time parent links (a
// header whose parent was unknown when it arrived has no parent: it is an orphan root).
func (t *Tree) AncArr(a, b *MHeader) bool {
	for m := b; m != nil; m = m.Parent {
		if m == a {
			return true
		}
	}
	return false
}

// AncHash is the same relation through hash links as they exist now (a parent that arrived
// after its child is linked), which is what SQL joins on previous_block see.
func (t *Tree) AncHash(a, b *MHeader) bool {
	for m, k := b, 0; m != nil && k <= len(t.Order); m, k = t.ByHash[m.Prev], k+1 {
		if m == a {
			return true
		}
	}
	return false
}

// LateParent reports whether some header on b's hash-linked ancestry arrived after its child
// (then arrival links and hash links disagree and read oracles accept either view).
func (t *Tree) LateParent(b *MHeader) bool {
	for m, k := b, 0; m != nil && k <= len(t.Order); m, k = t.ByHash[m.Prev], k+1 {
		if m.Parent == nil && t.ByHash[m.Prev] != nil {
			return true
		}
	}
	return false
}

// ParentByHash is the stored header whose hash is m.Prev, whenever it arrived.
func (t *Tree) ParentByHash(m *MHeader) *MHeader { return t.ByHash[m.Prev] }

// Children returns stored headers whose prev is m, by hash.
func (t *Tree) Children(m *MHeader) []*MHeader {
	var out []*MHeader
	for _, c := range t.Order {
		if c.Prev == m.Hash {
			out = append(out, c)
		}
	}
	return out
}

// SortedHashes returns all stored hashes sorted (for canonical output).
func (t *Tree) SortedHashes() []string {
	out := make([]string, 0, len(t.Order))
	for _, m := range t.Order {
		out = append(out, m.Hash)
	}
	sort.Strings(out)
	return out
}
