package core

import (
	"database/sql"
	"database/sql/driver"
	"strings"
	"sync"

	"github.com/jmoiron/sqlx"
	sqlite3 "github.com/mattn/go-sqlite3"
)

// TraceDriver is a database/sql driver that wraps go-sqlite3 and records the text of every
// statement prepared on any of its connections. It exposes only the basic driver.Conn
// methods, so database/sql routes every Exec/Query through Prepare and nothing escapes.
const TraceDriver = "sqlite3verif"

var (
	traceMu   sync.Mutex
	traceLog  []string
	traceOnce sync.Once
)

type traceDrv struct{ inner sqlite3.SQLiteDriver }

func (d *traceDrv) Open(name string) (driver.Conn, error) {
	c, err := d.inner.Open(name)
	if err != nil {
		return nil, err
	}
	return &traceConn{c}, nil
}

type traceConn struct{ inner driver.Conn }

func (c *traceConn) Prepare(q string) (driver.Stmt, error) {
	traceMu.Lock()
	traceLog = append(traceLog, strings.Join(strings.Fields(q), " "))
	traceMu.Unlock()
	return c.inner.Prepare(q)
}
func (c *traceConn) Close() error              { return c.inner.Close() }
func (c *traceConn) Begin() (driver.Tx, error) { return c.inner.Begin() } //nolint

// RegisterTraceDriver registers the driver once.
func RegisterTraceDriver() {
	traceOnce.Do(func() {
		sql.Register(TraceDriver, &traceDrv{})
		sqlx.BindDriver(TraceDriver, sqlx.QUESTION)
	})
}

// TraceReset clears the statement log.
func TraceReset() {
	traceMu.Lock()
	traceLog = nil
	traceMu.Unlock()
}

// TraceTake returns and clears the statement log.
func TraceTake() []string {
	traceMu.Lock()
	defer traceMu.Unlock()
	out := traceLog
	traceLog = nil
	return out
}
