package core

import (
	"encoding/json"
	"fmt"
	"os"
	"reflect"
	"runtime"
	"sort"
	"strconv"
	"strings"
	"time"
)

// Violation is one failed oracle clause on one explored case.
type Violation struct {
	Property string `json:"property"`
	// Kind names the oracle clause and, where the oracle can tell, the precise class of the
	// failing input (e.g. "label.zero_work_child_of_tip"). known_findings.jsonl entries match
	// on this name, never on "any violation".
	Kind     string `json:"kind"`
	What     string `json:"what"`
	Replay   any    `json:"replay"`
	Expected any    `json:"expected,omitempty"`
	Observed any    `json:"observed,omitempty"`
}

// Report is what one shard process writes.
type Report struct {
	Property           string           `json:"property"`
	Engine             string           `json:"engine"`
	Tier               string           `json:"tier"`
	Shard              string           `json:"shard"`
	States             int64            `json:"states"`
	Transitions        int64            `json:"transitions"`
	Executions         int64            `json:"executions"`
	Evaluations        int64            `json:"evaluations"`
	DistinctNontrivial int64            `json:"distinct_nontrivial"`
	Rule               string           `json:"rule"`
	Outcomes           map[string]int64 `json:"outcomes"`
	Samples            []any            `json:"samples"`
	Violations         []Violation      `json:"violations"`
	ViolationCounts    map[string]int64 `json:"violation_counts"`
	CapsHit            []string         `json:"caps_hit"`
	Exhaustive         bool             `json:"exhaustive"`
	Bound              string           `json:"bound"`
	Rechecked          int64            `json:"replays_rechecked"`
	HarnessErrors      []string         `json:"harness_errors"`
	WallS              float64          `json:"wall_s"`
	Extra              map[string]any   `json:"extra,omitempty"`

	start        time.Time
	deadline     time.Time
	expiredCalls int64
	memStop      bool
	sampleSeen   int64
	seed         int64
	match        any
}

// Env describes how the shard was invoked.
type Env struct {
	Prop     string
	Tier     string
	ShardI   int
	ShardN   int
	Seed     int64
	Out      string
	Replay   string
	Deadline time.Duration
}

// GetEnv reads the invocation from the environment.
func GetEnv() Env {
	e := Env{Prop: os.Getenv("VERIF_PROP"), Tier: os.Getenv("VERIF_TIER"), ShardN: 1, Out: os.Getenv("VERIF_OUT"), Replay: os.Getenv("VERIF_REPLAY")}
	if e.Tier == "" {
		e.Tier = "quick"
	}
	if s := os.Getenv("VERIF_SHARD"); s != "" {
		p := strings.Split(s, "/")
		e.ShardI, _ = strconv.Atoi(p[0])
		e.ShardN, _ = strconv.Atoi(p[1])
	}
	e.Seed, _ = strconv.ParseInt(os.Getenv("VERIF_SEED"), 10, 64)
	if d := os.Getenv("VERIF_DEADLINE_S"); d != "" {
		f, _ := strconv.ParseFloat(d, 64)
		e.Deadline = time.Duration(f * float64(time.Second))
	}
	return e
}

// Mine reports whether work item idx belongs to this shard.
func (e Env) Mine(idx int) bool { return e.ShardN <= 1 || idx%e.ShardN == e.ShardI }

// NewReport starts a report.
func NewReport(e Env, engine string) *Report {
	r := &Report{Property: e.Prop, Engine: engine, Tier: e.Tier, Shard: fmt.Sprintf("%d/%d", e.ShardI, e.ShardN),
		Outcomes: map[string]int64{}, ViolationCounts: map[string]int64{}, Exhaustive: true, start: time.Now(), seed: e.Seed, Extra: map[string]any{}}
	if e.Deadline > 0 {
		r.deadline = r.start.Add(e.Deadline)
	}
	// environment dimension: the process's local time zone. Every second shard (and any run with
	// VERIF_TZ=1) works in a zone 5 h 30 min east of UTC; nothing the properties talk about may
	// depend on it (block times are instants).
	if e.ShardI%2 == 1 || os.Getenv("VERIF_TZ") == "1" {
		time.Local = time.FixedZone("verif+0530", 5*3600+1800)
		r.Extra["local_zone"] = "UTC+05:30"
	}
	if m := os.Getenv("VERIF_REPLAY_MATCH"); m != "" {
		var rf struct {
			Replay any `json:"replay"`
		}
		ReadJSON(m, &rf)
		r.match = rf.Replay
	}
	return r
}

// memBudget is the heap size at which a shard stops by itself (the driver limits the address
// space of a shard to 8 GB).
const memBudget = 4 << 30

// Expired reports whether the internal deadline has passed; the first time it does the
// report is marked non-exhaustive with the cap that was hit.
func (r *Report) Expired() bool {
	// the shard's own memory is a budget too: a process killed by the memory limit loses its
	// report, a process that stops by itself says what it covered (checked every 512th call)
	r.expiredCalls++
	if r.memStop || r.expiredCalls%512 == 0 {
		if !r.memStop {
			var ms runtime.MemStats
			runtime.ReadMemStats(&ms)
			if ms.HeapAlloc > memBudget {
				r.memStop = true
				r.Exhaustive = false
				r.CapsHit = append(r.CapsHit, fmt.Sprintf("memory budget reached (heap %d MB)", ms.HeapAlloc>>20))
			}
		}
		if r.memStop {
			return true
		}
	}
	if r.deadline.IsZero() || time.Now().Before(r.deadline) {
		return false
	}
	if r.Exhaustive {
		r.Exhaustive = false
		r.CapsHit = append(r.CapsHit, "internal deadline reached")
	}
	return true
}

// Outcome counts a distinct observed outcome class.
func (r *Report) Outcome(k string) { r.Outcomes[k]++ }

// Violate records a violation (at most 5 full records per kind; all are counted).
func (r *Report) Violate(v Violation) {
	v.Property = r.Property
	if r.match != nil {
		// replay-by-filter: the whole (cheap) check is re-run and only the recorded case counts
		b, _ := json.Marshal(v.Replay)
		var got any
		_ = json.Unmarshal(b, &got)
		if !reflect.DeepEqual(got, r.match) {
			return
		}
	}
	r.ViolationCounts[v.Kind]++
	if r.ViolationCounts[v.Kind] <= 5 {
		r.Violations = append(r.Violations, v)
	}
}

// Sample keeps a reservoir-free deterministic selection of cases: the first one and then
// every case whose ordinal matches a seed-dependent stride, at most 6.
func (r *Report) Sample(mk func() any) {
	r.sampleSeen++
	stride := int64(997 + r.seed%101)
	if len(r.Samples) < 6 && (r.sampleSeen == 1 || r.sampleSeen%stride == 0) {
		r.Samples = append(r.Samples, mk())
	}
}

// HarnessError records a failure of the machinery itself (never a violation).
func (r *Report) HarnessError(s string) {
	if len(r.HarnessErrors) < 20 {
		r.HarnessErrors = append(r.HarnessErrors, s)
	}
}

// Write stores the report at path.
func (r *Report) Write(path string) {
	r.WallS = time.Since(r.start).Seconds()
	sort.Strings(r.CapsHit)
	b, err := json.MarshalIndent(r, "", " ")
	if err != nil {
		panic(err)
	}
	if path == "" {
		fmt.Println(string(b))
		return
	}
	if err := os.WriteFile(path, b, 0o644); err != nil {
		panic(err)
	}
}

// ReadJSON loads a JSON file into v.
func ReadJSON(path string, v any) {
	b, err := os.ReadFile(path)
	if err != nil {
		panic(err)
	}
	if err := json.Unmarshal(b, v); err != nil {
		panic(err)
	}
}
