package core

import (
	"bytes"
	"encoding/json"
	"fmt"
	"io"
	"net/http"
	"net/http/httptest"

	"github.com/bitcoin-sv/block-headers-service/metrics"
	"github.com/bitcoin-sv/block-headers-service/transports/http/endpoints"
	httpserver "github.com/bitcoin-sv/block-headers-service/transports/http/server"
	"github.com/bitcoin-sv/block-headers-service/transports/websocket"
	"github.com/gin-gonic/gin"
)

// API is the production gin engine over a rig.
type API struct {
	Engine *gin.Engine
	WS     websocket.Server
}

// APIOpts selects optional parts of the production wiring.
type APIOpts struct {
	Websocket bool // also build websocket.NewServer and register its entry point
	Start     bool // call ws.Start() (sets up node handlers and runs the node)
}

// NewAPI builds the engine exactly as cmd/main.go does: NewHTTPServer, metrics.Register,
// endpoints.SetupRoutes (with the rig's HTTP config), optionally the websocket entry point.
func (r *Rig) NewAPI(o APIOpts) *API {
	gin.SetMode(gin.ReleaseMode)
	srv := httpserver.NewHTTPServer(r.Cfg.HTTP, Quiet())
	srv.ApplyConfiguration(metrics.Register)
	srv.ApplyConfiguration(endpoints.SetupRoutes(r.Svc, r.Cfg.HTTP))
	a := &API{}
	if o.Websocket {
		ws, err := websocket.NewServer(Quiet(), r.Svc, r.Cfg.HTTP.UseAuth)
		if err != nil {
			panic(err)
		}
		srv.ApplyConfiguration(ws.SetupEntrypoint)
		if o.Start {
			if err := ws.Start(); err != nil {
				panic(err)
			}
		}
		a.WS = ws
	}
	srv.ApplyConfiguration(func(e *gin.Engine) { a.Engine = e })
	return a
}

// Resp is a served response.
type Resp struct {
	Code int
	Body []byte
	Hdr  http.Header
}

// Do serves one request through Engine.ServeHTTP.
func (a *API) Do(method, target string, body []byte, hdr map[string]string) Resp {
	var rd io.Reader
	if body != nil {
		rd = bytes.NewReader(body)
	}
	req := httptest.NewRequest(method, target, rd)
	for k, v := range hdr {
		req.Header.Set(k, v)
	}
	rec := httptest.NewRecorder()
	// a panic that gets past the engine's own recovery would, under net/http, drop the
	// connection without an answer: report it as status 599 with the panic text as body
	var escaped any
	func() {
		defer func() { escaped = recover() }()
		a.Engine.ServeHTTP(rec, req)
	}()
	if escaped != nil {
		return Resp{Code: 599, Body: []byte(fmt.Sprintf("panic escaped Engine.ServeHTTP: %v", escaped)), Hdr: rec.Header()}
	}
	return Resp{Code: rec.Code, Body: rec.Body.Bytes(), Hdr: rec.Header()}
}

// Get is Do(GET).
func (a *API) Get(target string) Resp { return a.Do(http.MethodGet, target, nil, nil) }

// JSON decodes the body into v and reports whether the body is exactly one JSON value.
func (r Resp) JSON(v any) bool {
	dec := json.NewDecoder(bytes.NewReader(r.Body))
	if err := dec.Decode(v); err != nil {
		return false
	}
	var extra any
	return dec.Decode(&extra) == io.EOF
}
