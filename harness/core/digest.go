package core

import (
	"crypto/sha256"
	"database/sql"
	"encoding/hex"
	"fmt"
	"strings"

	"github.com/jmoiron/sqlx"
)

// Row is one row of the headers table, every column as text, in rowid order.
type Row struct {
	Hash, Height, Version, Merkle, Nonce, Bits, Chainwork, Prev, Timestamp, State, Cum string
}

// Immutable is the row without its chain-state label (the only mutable column).
func (r Row) Immutable() string {
	return strings.Join([]string{r.Hash, r.Height, r.Version, r.Merkle, r.Nonce, r.Bits, r.Chainwork, r.Prev, r.Timestamp, r.Cum}, "|")
}

func (r Row) String() string { return r.Immutable() + "|" + r.State }

const dumpSQL = `SELECT hash, CAST(height AS TEXT), CAST(version AS TEXT), merkleroot, CAST(nonce AS TEXT),
 CAST(bits AS TEXT), chainwork, previous_block, CAST(timestamp AS TEXT), header_state, cumulated_work
 FROM headers ORDER BY rowid`

// DumpHeaders reads the whole headers table.
func DumpHeaders(db *sqlx.DB) []Row {
	rows, err := db.Query(dumpSQL)
	if err != nil {
		panic(fmt.Sprintf("dump headers: %v", err))
	}
	defer rows.Close()
	var out []Row
	for rows.Next() {
		var c [11]sql.NullString
		if err := rows.Scan(&c[0], &c[1], &c[2], &c[3], &c[4], &c[5], &c[6], &c[7], &c[8], &c[9], &c[10]); err != nil {
			panic(fmt.Sprintf("dump headers scan: %v", err))
		}
		out = append(out, Row{c[0].String, c[1].String, c[2].String, c[3].String, c[4].String, c[5].String, c[6].String, c[7].String, c[8].String, c[9].String, c[10].String})
	}
	if err := rows.Err(); err != nil {
		panic(err)
	}
	return out
}

// Digest hashes a table dump.
func Digest(rows []Row) string {
	h := sha256.New()
	for _, r := range rows {
		h.Write([]byte(r.String()))
		h.Write([]byte{'\n'})
	}
	return hex.EncodeToString(h.Sum(nil))[:16]
}

// DumpTable dumps any table as text rows ordered by rowid (tokens, webhooks).
func DumpTable(db *sqlx.DB, table string) []string {
	rows, err := db.Queryx("SELECT * FROM " + table + " ORDER BY rowid")
	if err != nil {
		panic(err)
	}
	defer rows.Close()
	var out []string
	for rows.Next() {
		vals, err := rows.SliceScan()
		if err != nil {
			panic(err)
		}
		parts := make([]string, len(vals))
		for i, v := range vals {
			switch x := v.(type) {
			case []byte:
				parts[i] = string(x)
			default:
				parts[i] = fmt.Sprint(x)
			}
		}
		out = append(out, strings.Join(parts, "|"))
	}
	return out
}
