package core

import (
	"fmt"
	"runtime/debug"

	"github.com/bitcoin-sv/block-headers-service/domains"
	"github.com/bitcoin-sv/block-headers-service/internal/chaincfg"
	"github.com/bitcoin-sv/block-headers-service/internal/chaincfg/chainhash"
	"github.com/bitcoin-sv/block-headers-service/service"
)

// AddResult is what one real Chains.Add did.
type AddResult struct {
	Header *domains.BlockHeader
	Err    error
	Panic  string // non-empty if Add panicked (value + stack)
}

// Code classifies the result: stored, duplicate, forbidden, panic, or error:<code>.
func (a AddResult) Code() string {
	switch {
	case a.Panic != "":
		return "panic"
	case a.Err == nil && a.Header != nil:
		return "stored"
	case a.Err == nil:
		return "nil-nil"
	case service.HeaderAlreadyExists.Is(a.Err):
		return "duplicate"
	case service.BlockRejected.Is(a.Err):
		return "forbidden"
	default:
		for _, c := range []service.AddBlockErrorCode{service.HeaderCreationFail, service.ChainUpdateFail, service.HeaderSaveFail} {
			if c.Is(a.Err) {
				return "error:" + c.String()
			}
		}
		return "error:other"
	}
}

// SafeAdd calls the real Chains.Add and converts a panic into a result.
func SafeAdd(chains service.Chains, src domains.BlockHeaderSource) (res AddResult) {
	defer func() {
		if p := recover(); p != nil {
			res.Panic = fmt.Sprintf("%v\n%s", p, debug.Stack())
		}
	}()
	h, err := chains.Add(src)
	return AddResult{Header: h, Err: err}
}

// TransInfo describes one expanding transition, computed on the model before the add.
type TransInfo struct {
	Node          int
	Outcome       AddOutcome
	WorkZero      bool
	Orphan        bool
	ParentIsBest  bool
	ParentLongest bool
	CmpBest       int // sign(newCum - bestCum); 0 for orphans
	Reorg         bool
}

// Class is a compact name of the transition's shape (used in violation kinds and outcome
// statistics).
func (t TransInfo) Class() string {
	switch {
	case t.Outcome == OutForbidden:
		return "forbidden"
	case t.Outcome == OutDuplicate:
		return "duplicate"
	case t.Orphan:
		return "orphan"
	}
	w := "w+"
	if t.WorkZero {
		w = "w0"
	}
	p := "parent_stale"
	if t.ParentIsBest {
		p = "parent_tip"
	} else if t.ParentLongest {
		p = "parent_longest_below_tip"
	}
	c := map[int]string{-1: "lighter", 0: "equal", 1: "heavier"}[t.CmpBest]
	return fmt.Sprintf("%s.%s.%s", w, p, c)
}

// Ctx is a visited state of the walk: the real stack on a store holding Seq (arrival
// order) and the reference model of the same history.
type Ctx struct {
	U          *Universe
	Forbidden  int // blueprint node on the forbidden list, 0 = none
	Seq        []int
	Rig        *Rig
	Model      *Tree
	Rows       []Row
	Consistent bool // store labels and tip agree with the model (C01 holds here)
	Rep        *Report
	BIdx       int
	// FirstVisit is false when this history was already visited on another path (the walk
	// revisits shared prefixes so that every path runs on one continuous service instance).
	FirstVisit bool
}

// ReplayInfo is the replayable identity of a state.
func (c *Ctx) ReplayInfo() map[string]any {
	return map[string]any{"engine": "storewalk", "blueprint": c.U.B, "blueprint_str": c.U.B.String(), "forbidden": c.Forbidden, "seq": append([]int{}, c.Seq...)}
}

// Visitor is a per-property oracle plugged into the walk.
type Visitor interface {
	// Transition is called after every expanding Add (the state in c is the successor).
	// Returning false prunes the subtree (the walker itself prunes when model and store
	// diverge).
	Transition(c *Ctx, ti TransInfo, res AddResult) bool
	// State is called once in every visited state (including the initial one).
	State(c *Ctx)
}

// WalkOpts bound one walk.
type WalkOpts struct {
	MaxDepth int // 0 = all nodes
	// Final, if set, only calls Visitor.State on states with every node submitted.
	OnlyFinal bool
	RigOpts   RigOpts
}

// ModelOf replays a sequence on a fresh model.
func ModelOf(u *Universe, forbidden int, seq []int) *Tree {
	t := NewTree()
	if forbidden > 0 {
		t.Forbidden[u.H[forbidden].Hex()] = true
	}
	for _, n := range seq {
		t.Add(n, u.Raw[n])
	}
	return t
}

func transInfo(t *Tree, u *Universe, node int) TransInfo {
	r := u.Raw[node]
	h := r.Hash().Hex()
	ti := TransInfo{Node: node, Outcome: OutStored}
	if _, ok := t.ByHash[h]; ok {
		ti.Outcome = OutDuplicate
		return ti
	}
	if t.Forbidden[h] {
		ti.Outcome = OutForbidden
		return ti
	}
	w := RefWork(r.Bits)
	ti.WorkZero = w.Sign() == 0
	p := t.ByHash[r.Prev.Hex()]
	if p == nil || p.Orphan {
		ti.Orphan = true
		return ti
	}
	best := t.Best()
	ti.ParentIsBest = p == best
	for m := best; m != nil; m = m.Parent {
		if m == p {
			ti.ParentLongest = true
		}
	}
	cum := w.Add(w, p.Cum)
	ti.CmpBest = cum.Cmp(best.Cum)
	ti.Reorg = ti.CmpBest > 0 && !ti.ParentIsBest
	return ti
}

// SetForbidden puts hashes on the active network's forbidden list (restored by the
// returned func). The chain service reads the list through the pointer it got from
// config.P2P.GetNetParams(), i.e. this very global.
func SetForbidden(hashes ...Hash32) func() {
	old := chaincfg.MainNetParams.HeadersToIgnore
	var l []*chainhash.Hash
	for _, h := range hashes {
		ch := chainhash.Hash(h)
		l = append(l, &ch)
	}
	chaincfg.MainNetParams.HeadersToIgnore = l
	return func() { chaincfg.MainNetParams.HeadersToIgnore = old }
}

// CheckConsistent compares store rows with the model: same hashes, same labels.
func CheckConsistent(rows []Row, t *Tree) (bool, string) {
	if len(rows) != len(t.Order) {
		return false, fmt.Sprintf("row count %d, model %d", len(rows), len(t.Order))
	}
	labels := t.Labels()
	for _, r := range rows {
		want, ok := labels[r.Hash]
		if !ok {
			return false, "store holds " + r.Hash + " which the model does not"
		}
		if want != r.State {
			m := t.ByHash[r.Hash]
			return false, fmt.Sprintf("node %d (%s) labelled %s, model %s", m.Node, r.Hash[:8], r.State, want)
		}
	}
	return true, ""
}

// Walk explores every arrival order of every subset of the universe's nodes. Every maximal
// arrival order is executed on ONE continuous instance of the service stack (fresh template
// copy, the real Add for every step) and the visitor runs in every prefix state of it, so
// that whatever an instance remembers between calls (caches, cursors) is exercised across
// the following transitions too. A prefix shared by several orders is therefore visited
// once per order; Report.States counts distinct histories, Evaluations counts visits.
func Walk(u *Universe, forbidden int, bidx int, rep *Report, v Visitor, o WalkOpts) {
	if forbidden > 0 {
		defer SetForbidden(u.H[forbidden])()
	} else {
		defer SetForbidden()()
	}
	n := u.B.N()
	depth := o.MaxDepth
	if depth == 0 || depth > n {
		depth = n
	}
	var nodes []int
	for k := 1; k <= n; k++ {
		if k != forbidden {
			nodes = append(nodes, k)
		}
	}
	if depth > len(nodes) {
		depth = len(nodes)
	}
	seen := map[string]bool{}
	dead := map[string]bool{} // prefixes after which model and store diverged (pruned)
	var paths [][]int
	var rec func(cur []int, used map[int]bool)
	rec = func(cur []int, used map[int]bool) {
		if len(cur) == depth {
			paths = append(paths, append([]int{}, cur...))
			return
		}
		for _, k := range nodes {
			if !used[k] {
				used[k] = true
				rec(append(cur, k), used)
				used[k] = false
			}
		}
	}
	rec(nil, map[int]bool{})
	key := func(seq []int) string { return fmt.Sprint(seq) }
	for _, path := range paths {
		if rep.Expired() {
			return
		}
		// skip a path whose prefix is known to diverge (already reported once)
		skip := false
		for k := 1; k <= len(path); k++ {
			if dead[key(path[:k])] {
				skip = true
			}
		}
		if skip {
			continue
		}
		rig := NewRig(o.RigOpts)
		for k := 0; ; k++ {
			cur := path[:k]
			model := ModelOf(u, forbidden, cur)
			rows := DumpHeaders(rig.DB)
			ok, _ := CheckConsistent(rows, model)
			c := &Ctx{U: u, Forbidden: forbidden, Seq: cur, Rig: rig, Model: model, Rows: rows, Consistent: ok, Rep: rep, BIdx: bidx}
			first := !seen[key(cur)]
			if first {
				seen[key(cur)] = true
				rep.States++
			}
			c.FirstVisit = first
			if !o.OnlyFinal || k == depth {
				v.State(c)
			}
			if k == len(path) {
				break
			}
			node := path[k]
			ti := transInfo(model, u, node)
			res := SafeAdd(rig.Svc.Chains, u.Raw[node].Source())
			rep.Executions++
			nseq := path[:k+1]
			nfirst := !seen[key(nseq)]
			if nfirst {
				rep.Transitions++
				rep.Outcome("add:" + ti.Class() + "->" + res.Code())
			}
			cm := ModelOf(u, forbidden, nseq)
			crow := DumpHeaders(rig.DB)
			cok, _ := CheckConsistent(crow, cm)
			cc := &Ctx{U: u, Forbidden: forbidden, Seq: nseq, Rig: rig, Model: cm, Rows: crow, Consistent: cok, Rep: rep, BIdx: bidx, FirstVisit: nfirst}
			descend := v.Transition(cc, ti, res)
			if !descend || !cok || res.Code() != "stored" {
				if !cok || res.Code() != "stored" {
					rep.Outcome("pruned_divergent")
				}
				dead[key(nseq)] = true
				break
			}
		}
		rig.Close()
	}
}

// ReplaySeq re-executes one history (no search): every prefix of seq is a visited state and
// every step an expanding transition, with the same oracle calls as Walk makes.
func ReplaySeq(u *Universe, forbidden int, seq []int, rep *Report, v Visitor, o WalkOpts) {
	if forbidden > 0 {
		defer SetForbidden(u.H[forbidden])()
	} else {
		defer SetForbidden()()
	}
	rig := NewRig(o.RigOpts)
	defer rig.Close()
	for k := 0; ; k++ {
		cur := seq[:k]
		model := ModelOf(u, forbidden, cur)
		rows := DumpHeaders(rig.DB)
		ok, _ := CheckConsistent(rows, model)
		c := &Ctx{U: u, Forbidden: forbidden, Seq: cur, Rig: rig, Model: model, Rows: rows, Consistent: ok, Rep: rep}
		rep.States++
		if k > 0 {
			// transition oracle was already called below
		}
		v.State(c)
		if k == len(seq) {
			return
		}
		node := seq[k]
		ti := transInfo(model, u, node)
		res := SafeAdd(rig.Svc.Chains, u.Raw[node].Source())
		rep.Transitions++
		rep.Executions++
		nseq := seq[:k+1]
		cm := ModelOf(u, forbidden, nseq)
		crow := DumpHeaders(rig.DB)
		cok, _ := CheckConsistent(crow, cm)
		cc := &Ctx{U: u, Forbidden: forbidden, Seq: nseq, Rig: rig, Model: cm, Rows: crow, Consistent: cok, Rep: rep}
		if !v.Transition(cc, ti, res) || !cok || res.Code() != "stored" {
			return
		}
	}
}
