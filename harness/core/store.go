// Package core holds the parts every engine of the model-checking harness shares:
// the template store (a pristine SQLite file produced by the working tree's own
// database.Init), header universes (blueprints), the reference tree model, table
// digests, sharding and shard reports.
//
// The package is compiled inside the repository's module through a build overlay
// (virtual directory /repo/verifh/core); nothing is written to /repo.
package core

import (
	"bytes"
	"compress/gzip"
	"fmt"
	"io"
	"os"
	"path/filepath"
	"sync"
	"sync/atomic"

	"github.com/bitcoin-sv/block-headers-service/config"
	"github.com/bitcoin-sv/block-headers-service/database"
	sqlrepository "github.com/bitcoin-sv/block-headers-service/database/repository"
	"github.com/bitcoin-sv/block-headers-service/database/sql"
	"github.com/bitcoin-sv/block-headers-service/internal/chaincfg"
	"github.com/bitcoin-sv/block-headers-service/repository"
	"github.com/bitcoin-sv/block-headers-service/service"
	peerpkg "github.com/bitcoin-sv/block-headers-service/transports/p2p/peer"
	"github.com/jmoiron/sqlx"
	"github.com/rs/zerolog"
)

// RepoRoot is the checkout the harness verifies (migrations are read from it).
func RepoRoot() string {
	if r := os.Getenv("VERIF_REPO"); r != "" {
		return r
	}
	return "/repo"
}

// ScratchDir is a per-process directory on tmpfs; removed by Cleanup.
var scratchDir string

// Scratch returns (creating on first use) the per-process scratch directory.
func Scratch() string {
	if scratchDir != "" {
		return scratchDir
	}
	base := os.Getenv("VERIF_SCRATCH")
	if base == "" {
		base = "/dev/shm"
	}
	d, err := os.MkdirTemp(base, "verif-")
	if err != nil {
		panic(err)
	}
	scratchDir = d
	return d
}

// Cleanup removes the scratch directory.
func Cleanup() {
	if scratchDir != "" {
		_ = os.RemoveAll(scratchDir)
		scratchDir = ""
	}
}

// Quiet is the logger handed to the code under test.
func Quiet() *zerolog.Logger {
	if os.Getenv("VERIF_LOG") != "" {
		l := zerolog.New(zerolog.ConsoleWriter{Out: os.Stderr, NoColor: true}).Level(zerolog.TraceLevel)
		return &l
	}
	l := zerolog.New(io.Discard).Level(zerolog.Disabled)
	return &l
}

// BaseConfig returns the default application configuration pointed at dbFile, with the
// schema path of the working tree. Authentication is left at the default (on) - callers
// change what they need.
func BaseConfig(dbFile string) *config.AppConfig {
	cfg := config.GetDefaultAppConfig()
	cfg.Db.SchemaPath = filepath.Join(RepoRoot(), "database", "migrations")
	cfg.Db.SQLite.FilePath = dbFile
	cfg.Db.PreparedDb = false
	return cfg
}

var templatePath string

// Template builds (once per process) the pristine store: database.Init on an empty
// SQLite file with the working tree's migrations; genesis inserted by the code itself.
func Template() string {
	if templatePath != "" {
		return templatePath
	}
	p := filepath.Join(Scratch(), "template.db")
	cfg := BaseConfig(p)
	db, err := database.Init(cfg, Quiet())
	if err != nil {
		panic(fmt.Sprintf("template: database.Init failed: %v", err))
	}
	if err := db.Close(); err != nil {
		panic(err)
	}
	templatePath = p
	return p
}

var storeSeq atomic.Int64

// Rig is one instance of the service stack over one SQLite file, wired as cmd/main.go does.
type Rig struct {
	Path  string
	Cfg   *config.AppConfig
	DB    *sqlx.DB
	Repo  *repository.Repositories
	Svc   *service.Services
	Store *sql.HeadersDb
	// InitErr is what database.Init answered when the rig was reopened with Prepared (the file
	// was then opened plainly so that the caller can still look at it).
	InitErr error
}

// RigOpts tune how a rig is opened.
type RigOpts struct {
	// WrapHeaders lets an engine decorate the repository.Headers interface (fault
	// injection, scheduling points, call recording) before services are built.
	WrapHeaders func(repository.Headers) repository.Headers
	// WrapRepos lets an engine decorate any of the three repositories.
	WrapRepos func(*repository.Repositories)
	// Cfg, if set, mutates the configuration before services are built.
	Cfg func(*config.AppConfig)
	// ReInit runs database.Init on the file (restart path) instead of a plain open.
	ReInit bool
	// Prepared (with ReInit): restart with db.prepared_db = true, the standing configuration of an
	// installation that was set up from a prepared file. The table already holds headers, so the
	// import must be skipped before the file is even looked at (the path names no file).
	Prepared bool
	// Trace opens the file through the statement-recording driver (see sqltrace.go).
	Trace bool
	// Pool leaves database/sql's connection pool as the service configures it (the free-running
	// pass: readers and the writer really use different connections).
	Pool bool
}

// preparedStub is an existing, well-formed (gzip of a CSV header line) prepared-database file in
// the process's scratch directory: a start with prepared_db=true on a populated table must not
// read it, but a configuration check that wants the file to exist is satisfied.
func preparedStub() string {
	preparedOnce.Do(func() {
		var buf bytes.Buffer
		zw := gzip.NewWriter(&buf)
		_, _ = zw.Write([]byte("hash,version,merkleroot,nonce,bits,chainwork,timestamp,cumulatedWork\n"))
		_ = zw.Close()
		preparedPath = filepath.Join(Scratch(), "verif-prepared.csv.gz")
		_ = os.WriteFile(preparedPath, buf.Bytes(), 0o644)
	})
	return preparedPath
}

var (
	preparedOnce sync.Once
	preparedPath string
)

// CopyFile copies src to dst.
func CopyFile(src, dst string) {
	b, err := os.ReadFile(src)
	if err != nil {
		panic(err)
	}
	if err := os.WriteFile(dst, b, 0o600); err != nil {
		panic(err)
	}
}

// NewStoreFile returns the path of a fresh copy of the template.
func NewStoreFile() string {
	p := filepath.Join(Scratch(), fmt.Sprintf("s%d.db", storeSeq.Add(1)))
	CopyFile(Template(), p)
	return p
}

// OpenRig opens the stack on an existing SQLite file the way production does:
// same DSN as sqLiteAdapter.connect, sql.NewHeadersDb, the three SQL repositories,
// service.NewServices.
func OpenRig(path string, o RigOpts) *Rig {
	cfg := BaseConfig(path)
	if o.Cfg != nil {
		o.Cfg(cfg)
	}
	var db *sqlx.DB
	var err error
	var initErr error
	if o.ReInit && o.Prepared {
		cfg.Db.PreparedDb = true
		cfg.Db.PreparedDbFilePath = preparedStub()
		// (an installation set up from a prepared file usually sits below the newest checkpoint of
		// its network for a long while: the checkpoint list of this start ends far above the store)
		oldCP := config.Checkpoints
		far := chaincfg.MainNetParams.GenesisHash
		config.Checkpoints = append(append([]chaincfg.Checkpoint{}, oldCP...), chaincfg.Checkpoint{Height: 1000000, Hash: far})
		defer func() { config.Checkpoints = oldCP }()
		if db, err = database.Init(cfg, Quiet()); err != nil {
			initErr = err
			db, err = sqlx.Open("sqlite3", fmt.Sprintf("file:%s?_foreign_keys=true&pooling=true", path))
		}
	} else if o.ReInit {
		db, err = database.Init(cfg, Quiet())
	} else {
		if o.Trace {
			// (the statement-recording driver needs its own name: the adapter's DSN is copied here)
			RegisterTraceDriver()
			db, err = sqlx.Open(TraceDriver, fmt.Sprintf("file:%s?_foreign_keys=true&pooling=true", path))
		} else {
			// the service's own way of opening the file (DSN, connection settings)
			db, err = database.VerifConnect(cfg.Db)
		}
	}
	if err != nil {
		panic(fmt.Sprintf("open rig: %v", err))
	}
	// One connection: keeps every statement of one execution on one SQLite handle,
	// which makes row order and timing independent of database/sql's pool.
	if !o.Pool {
		db.SetMaxOpenConns(1)
	}
	hdb := sql.NewHeadersDb(db, Quiet())
	repo := &repository.Repositories{
		Headers:  sqlrepository.NewHeadersRepository(hdb),
		Tokens:   sqlrepository.NewTokensRepository(hdb),
		Webhooks: sqlrepository.NewWebhooksRepository(hdb),
	}
	if o.WrapHeaders != nil {
		repo.Headers = o.WrapHeaders(repo.Headers)
	}
	if o.WrapRepos != nil {
		o.WrapRepos(repo)
	}
	EnsureGlobals()
	svc := service.NewServices(service.Dept{
		Repositories: repo,
		Peers:        nil,
		AdminToken:   cfg.HTTP.AuthToken,
		Logger:       Quiet(),
		Config:       cfg,
	})
	return &Rig{Path: path, Cfg: cfg, DB: db, Repo: repo, Svc: svc, Store: hdb, InitErr: initErr}
}

// NewRig = fresh template copy + OpenRig.
func NewRig(o RigOpts) *Rig {
	return OpenRig(NewStoreFile(), o)
}

// Close closes the database handle and removes the file.
func (r *Rig) Close() {
	_ = r.DB.Close()
	_ = os.Remove(r.Path)
	_ = os.Remove(r.Path + "-journal")
}

// CloseKeep closes the database handle and keeps the file (restart scenarios).
func (r *Rig) CloseKeep() {
	_ = r.DB.Close()
}

// EnsureGlobals sets the package-level seams that service constructors read.
func EnsureGlobals() {
	if len(config.Checkpoints) == 0 {
		// HeaderService.IsCurrent indexes the last checkpoint; production always has some.
		config.Checkpoints = []chaincfg.Checkpoint{{Height: 0, Hash: chaincfg.MainNetParams.GenesisHash}}
	}
	if config.TimeSource == nil {
		config.TimeSource = config.NewMedianTime(Quiet())
	}
}

// OpenRigWithPeers rebuilds the services of an open rig with a peers map, as cmd/main.go does:
// the very same map is handed to service.NewServices (network service) and to the P2P server.
func OpenRigWithPeers(r *Rig, peers any) *Rig {
	pm, _ := peers.(map[*peerpkg.Peer]*peerpkg.SyncState)
	svc := service.NewServices(service.Dept{Repositories: r.Repo, Peers: pm, AdminToken: r.Cfg.HTTP.AuthToken, Logger: Quiet(), Config: r.Cfg})
	return &Rig{Path: r.Path, Cfg: r.Cfg, DB: r.DB, Repo: r.Repo, Svc: svc, Store: r.Store}
}
