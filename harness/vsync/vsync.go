// Package vsync stands in for package sync in the notification packages when they are compiled
// for the harness (overlay import rewrite, see tools/verif.py SHIM_DIRS): its Mutex and RWMutex
// make a waiting goroutine block on a channel instead of a runtime semaphore. A goroutine that
// waits for a sync.Mutex is not "durably blocked" for testing/synctest, so synctest.Wait - the
// scheduler's quiescence barrier in bubble mode - would never return while a parked thread holds a
// lock another released thread wants; a channel wait is durable, the waiter simply shows up as a
// thread that has neither arrived at a scheduling point nor finished, and is looked at again after
// every step. Semantics are those of sync (mutual exclusion, FIFO hand-off); everything else is
// the real thing.
package vsync

import "sync"

type (
	Once      = sync.Once
	WaitGroup = sync.WaitGroup
	Map       = sync.Map
	Pool      = sync.Pool
	Cond      = sync.Cond
	Locker    = sync.Locker
)

func NewCond(l Locker) *Cond               { return sync.NewCond(l) }
func OnceFunc(f func()) func()             { return sync.OnceFunc(f) }
func OnceValue[T any](f func() T) func() T { return sync.OnceValue(f) }

// Mutex is a mutual exclusion lock whose waiters block on a channel.
type Mutex struct {
	mu      sync.Mutex // guards the fields below, never held while waiting
	locked  bool
	waiters []chan struct{}
}

func (m *Mutex) Lock() {
	m.mu.Lock()
	if !m.locked {
		m.locked = true
		m.mu.Unlock()
		return
	}
	ch := make(chan struct{})
	m.waiters = append(m.waiters, ch)
	m.mu.Unlock()
	<-ch // ownership is handed over by Unlock
}

func (m *Mutex) TryLock() bool {
	m.mu.Lock()
	defer m.mu.Unlock()
	if m.locked {
		return false
	}
	m.locked = true
	return true
}

func (m *Mutex) Unlock() {
	m.mu.Lock()
	if !m.locked {
		m.mu.Unlock()
		panic("vsync: unlock of unlocked mutex")
	}
	if len(m.waiters) > 0 {
		ch := m.waiters[0]
		m.waiters = m.waiters[1:]
		m.mu.Unlock()
		close(ch)
		return
	}
	m.locked = false
	m.mu.Unlock()
}

// RWMutex is a reader/writer lock whose waiters block on channels (writers are not overtaken by
// readers that arrive after them).
type RWMutex struct {
	mu      sync.Mutex
	writer  bool
	readers int
	queue   []rwWaiter
}

type rwWaiter struct {
	write bool
	ch    chan struct{}
}

func (m *RWMutex) Lock() {
	m.mu.Lock()
	if !m.writer && m.readers == 0 && len(m.queue) == 0 {
		m.writer = true
		m.mu.Unlock()
		return
	}
	w := rwWaiter{write: true, ch: make(chan struct{})}
	m.queue = append(m.queue, w)
	m.mu.Unlock()
	<-w.ch
}

func (m *RWMutex) RLock() {
	m.mu.Lock()
	if !m.writer && len(m.queue) == 0 {
		m.readers++
		m.mu.Unlock()
		return
	}
	w := rwWaiter{ch: make(chan struct{})}
	m.queue = append(m.queue, w)
	m.mu.Unlock()
	<-w.ch
}

// grant hands the lock to the waiters at the head of the queue; m.mu is held.
func (m *RWMutex) grant() {
	for len(m.queue) > 0 {
		w := m.queue[0]
		if w.write {
			if m.readers > 0 || m.writer {
				return
			}
			m.writer = true
			m.queue = m.queue[1:]
			close(w.ch)
			return
		}
		if m.writer {
			return
		}
		m.readers++
		m.queue = m.queue[1:]
		close(w.ch)
	}
}

func (m *RWMutex) Unlock() {
	m.mu.Lock()
	if !m.writer {
		m.mu.Unlock()
		panic("vsync: Unlock of unlocked RWMutex")
	}
	m.writer = false
	m.grant()
	m.mu.Unlock()
}

func (m *RWMutex) RUnlock() {
	m.mu.Lock()
	if m.readers == 0 {
		m.mu.Unlock()
		panic("vsync: RUnlock of unlocked RWMutex")
	}
	m.readers--
	m.grant()
	m.mu.Unlock()
}

func (m *RWMutex) RLocker() Locker { return (*rlocker)(m) }

type rlocker RWMutex

func (r *rlocker) Lock()   { (*RWMutex)(r).RLock() }
func (r *rlocker) Unlock() { (*RWMutex)(r).RUnlock() }
