package crashwalk

import (
	"bytes"
	"compress/gzip"
	"encoding/csv"
	"fmt"
	"os"
	"path/filepath"
	"strings"

	"github.com/bitcoin-sv/block-headers-service/config"
	"github.com/bitcoin-sv/block-headers-service/database"
	"github.com/bitcoin-sv/block-headers-service/internal/chaincfg"
	"github.com/bitcoin-sv/block-headers-service/internal/chaincfg/chainhash"
	"github.com/bitcoin-sv/block-headers-service/verifh/core"
)

// C17: export -> import reproduces the longest chain; every single-field corruption of the
// exported file is refused and the refusal is not forgotten by the next start.

type c17 struct {
	rep *core.Report
	seq int
}

func (o *c17) viol(kind, what string, replay, exp, obs any) {
	o.rep.Violate(core.Violation{Kind: kind, What: what, Replay: replay, Expected: exp, Observed: obs})
}

// cwdScratch: the import code joins the prepared file path onto the working directory and
// both directions use fixed/second-granular names in os.TempDir(), so each shard process
// works in its own directory with its own TMPDIR.
func cwdScratch() string {
	d := core.Scratch()
	tmp := filepath.Join(d, "tmp")
	_ = os.MkdirAll(tmp, 0o755)
	_ = os.Setenv("TMPDIR", tmp)
	if err := os.Chdir(d); err != nil {
		panic(err)
	}
	return d
}

func setCheckpoint(height int32, hashHex string) {
	h, err := chainhash.NewHashFromStr(hashHex)
	if err != nil {
		panic(err)
	}
	config.Checkpoints = []chaincfg.Checkpoint{{Height: height, Hash: h}}
}

// exportStore runs the real ExportHeaders on a store file and returns the CSV rows.
func (o *c17) exportStore(storePath string) ([][]string, string, error) {
	o.seq++
	out := fmt.Sprintf("export%d.csv.gz", o.seq)
	cfg := core.BaseConfig(storePath)
	cfg.Db.PreparedDbFilePath = out
	if o.seq%2 == 1 {
		// environment: an earlier export on this host was killed after writing its intermediate CSV
		// (fixed name in the temp directory) - a longer one than this store will produce
		var stale bytes.Buffer
		for i := 0; i < 3000; i++ {
			fmt.Fprintf(&stale, "%064x,1,%064x,%064x,1600000000,545259519,%d,%d\n", i+1, i+2, i, i, i)
		}
		_ = os.WriteFile(filepath.Join(os.TempDir(), "headers.csv"), stale.Bytes(), 0o600)
	}
	if err := database.ExportHeaders(cfg, core.Quiet()); err != nil {
		return nil, "", err
	}
	f, err := os.Open(out)
	if err != nil {
		return nil, "", err
	}
	defer f.Close()
	zr, err := gzip.NewReader(f)
	if err != nil {
		return nil, "", err
	}
	rows, err := csv.NewReader(zr).ReadAll()
	return rows, out, err
}

func writeCSVGz(name string, rows [][]string) {
	var buf bytes.Buffer
	zw := gzip.NewWriter(&buf)
	w := csv.NewWriter(zw)
	for _, r := range rows {
		// csv.Writer refuses nothing; a row of zero fields is written as an empty line
		if err := w.Write(r); err != nil {
			panic(err)
		}
	}
	w.Flush()
	_ = zw.Close()
	if err := os.WriteFile(name, buf.Bytes(), 0o644); err != nil {
		panic(err)
	}
}

// importInto runs database.Init(prepared_db=true) on dbPath with the given file.
// importP2PNoCheckpoints: the next importInto runs with p2p.disable_checkpoints = true (a switch of
// the P2P sync; the content check of a prepared file must not depend on it)
var importP2PNoCheckpoints bool

func importInto(dbPath, file string, prepared bool) ([]core.Row, error) {
	cfg := core.BaseConfig(dbPath)
	cfg.P2P.DisableCheckpoints = importP2PNoCheckpoints
	cfg.Db.PreparedDb = prepared
	cfg.Db.PreparedDbFilePath = file
	db, err := database.Init(cfg, core.Quiet())
	if err != nil {
		// Init leaves its handle open on failure; the file is inspected by the caller
		return nil, err
	}
	rows := core.DumpHeaders(db)
	_ = db.Close()
	return rows, nil
}

func rawDump(dbPath string) []core.Row {
	r := core.OpenRig(dbPath, core.RigOpts{})
	defer r.CloseKeep()
	return core.DumpHeaders(r.DB)
}

// expectRows: what an import of the model's longest chain must store.
func expectRows(longest []*core.MHeader) []string {
	var out []string
	for _, m := range longest {
		out = append(out, strings.Join([]string{m.Hash, fmt.Sprint(m.Height), fmt.Sprint(m.Raw.Version), m.Raw.Merkle.Hex(), fmt.Sprint(m.Raw.Nonce),
			fmt.Sprint(m.Raw.Bits), m.Work.String(), m.Prev, fmt.Sprint(m.Raw.Time), core.LLongest, m.Cum.String()}, "|"))
	}
	return out
}

// gotRows renders imported rows in the same form (timestamp reduced to unix seconds through
// the repository's own reader, which is what the API serves).
func gotRows(dbPath string) []string {
	r := core.OpenRig(dbPath, core.RigOpts{})
	defer r.CloseKeep()
	var out []string
	for _, row := range core.DumpHeaders(r.DB) {
		ts := "?"
		if bh, err := r.Svc.Headers.GetHeaderByHash(row.Hash); err == nil && bh != nil {
			ts = fmt.Sprint(bh.Timestamp.Unix())
		}
		out = append(out, strings.Join([]string{row.Hash, row.Height, row.Version, row.Merkle, row.Nonce, row.Bits, row.Chainwork, row.Prev, ts, row.State, row.Cum}, "|"))
	}
	return out
}

func (o *c17) freshDB() string {
	o.seq++
	p := filepath.Join(core.Scratch(), fmt.Sprintf("imp%d.db", o.seq))
	_ = os.Remove(p)
	return p
}

// roundTrip: export the store, import into an empty database, compare.
func (o *c17) roundTrip(storePath string, t *core.Tree, replay any, nontrivial bool) (rows [][]string, file string, ok bool) {
	longest := t.LongestPath()
	rows, file, err := o.exportStore(storePath)
	o.rep.Evaluations++
	o.rep.Executions++
	if nontrivial {
		o.rep.DistinctNontrivial++
	}
	if err != nil {
		o.viol("export.error", "ExportHeaders failed: "+err.Error(), replay, nil, nil)
		return nil, "", false
	}
	if len(rows) != len(longest)+1 {
		o.viol("export.rows", "exported row count is not the longest chain's length + header line", replay, len(longest)+1, len(rows))
		return rows, file, false
	}
	tip := longest[len(longest)-1]
	setCheckpoint(tip.Height, tip.Hash)
	db := o.freshDB()
	_, err = importInto(db, file, true)
	if err != nil {
		o.viol("import.refused_valid", "importing an untouched export failed: "+err.Error(), replay, nil, nil)
		return rows, file, false
	}
	want, got := expectRows(longest), gotRows(db)
	if strings.Join(want, "\n") != strings.Join(got, "\n") {
		o.viol("import.differs", "imported table is not the exported longest chain", replay, want, got)
		return rows, file, false
	}
	o.rep.Outcome(fmt.Sprintf("roundtrip:len%d", len(longest)))
	// a database that already holds headers is never overwritten by an import
	before := core.Digest(rawDump(db))
	other := [][]string{rows[0], rows[1]}
	writeCSVGz("other.csv.gz", other)
	if _, err := importInto(db, "other.csv.gz", true); err != nil {
		o.viol("import.nonempty_error", "Init(prepared_db) on a database that holds headers failed: "+err.Error(), replay, nil, nil)
	}
	if after := core.Digest(rawDump(db)); after != before {
		o.viol("import.overwrote", "Init(prepared_db) changed a database that already held headers", replay, before, after)
	}
	_ = os.Remove(db)
	// the same for a database that was started without an import before and holds only genesis,
	// and for the exported store itself (stale/orphan headers included)
	for _, src := range []string{core.Template(), storePath} {
		o.seq++
		tgt := filepath.Join(core.Scratch(), fmt.Sprintf("held%d.db", o.seq))
		core.CopyFile(src, tgt)
		before := core.Digest(rawDump(tgt))
		_, err := importInto(tgt, file, true)
		o.rep.Executions++
		if after := core.Digest(rawDump(tgt)); after != before {
			kind := "import.overwrote"
			if src == core.Template() {
				kind = "import.overwrote/genesis_only_store"
			}
			o.viol(kind, fmt.Sprintf("Init(prepared_db) changed a database that already held headers (%d rows before; err=%v)", len(rawDump(src)), err), replay, before, after)
		}
		_ = os.Remove(tgt)
	}
	return rows, file, true
}

type corruption struct {
	Desc string     `json:"desc"`
	Rows [][]string `json:"-"`
	// MustFail: the corrupted file describes another chain (or is malformed), so start-up
	// has to fail; otherwise the import must reproduce the exported chain exactly.
	MustFail bool `json:"must_fail"`
}

func cloneRows(rows [][]string) [][]string {
	out := make([][]string, len(rows))
	for i, r := range rows {
		out[i] = append([]string{}, r...)
	}
	return out
}

// corruptions enumerates every single-field corruption of the data rows listed in at.
func corruptions(rows [][]string, at []int, cp int) []corruption {
	var out []corruption
	cols := []string{"version", "merkleroot", "nonce", "bits", "timestamp"}
	oor := []string{"2147483648", strings.Repeat("f", 65), "4294967296", "4294967296", "9223372036854775808"}
	for _, i := range at {
		for c := 0; c < 5; c++ {
			var vals []string
			vals = append(vals, "", "x", "-1", oor[c])
			for j := 1; j < len(rows); j++ {
				if rows[j][c] != rows[i][c] {
					vals = append(vals, rows[j][c]) // a valid value of another row
					break
				}
			}
			for _, v := range vals {
				if v == rows[i][c] {
					continue
				}
				r := cloneRows(rows)
				r[i][c] = v
				out = append(out, corruption{Desc: fmt.Sprintf("row %d %s=%q (was %q)", i-1, cols[c], v, rows[i][c]), Rows: r, MustFail: true})
			}
		}
		// row deleted
		r := append(cloneRows(rows[:i]), cloneRows(rows[i+1:])...)
		out = append(out, corruption{Desc: fmt.Sprintf("row %d deleted", i-1), Rows: r, MustFail: true})
		// row duplicated
		r = append(cloneRows(rows[:i+1]), cloneRows(rows[i:])...)
		// a copy of the row at the checkpoint height (or above) only adds a header above the
		// checkpoint: the file then describes a consistent longer chain and need not be refused
		out = append(out, corruption{Desc: fmt.Sprintf("row %d duplicated", i-1), Rows: r, MustFail: i-1 < cp})
		// extra column / missing column
		r = cloneRows(rows)
		r[i] = append(r[i], "0")
		out = append(out, corruption{Desc: fmt.Sprintf("row %d has an extra column", i-1), Rows: r, MustFail: true})
		r = cloneRows(rows)
		r[i] = r[i][:4]
		out = append(out, corruption{Desc: fmt.Sprintf("row %d lacks a column", i-1), Rows: r, MustFail: true})
	}
	// header line removed: the first data row is swallowed as column names
	out = append(out, corruption{Desc: "column header line removed", Rows: cloneRows(rows[1:]), MustFail: true})
	return out
}

// corruptionMatrix imports every corrupted variant into an empty database.
func (o *c17) corruptionMatrix(name string, rows [][]string, t *core.Tree, at []int, cpHeight int32) {
	longest := t.LongestPath()
	cp := longest[cpHeight]
	defer func() { importP2PNoCheckpoints = false }()
	for ci, cr := range corruptions(rows, at, int(cpHeight)) {
		if o.rep.Expired() {
			return
		}
		// every corruption under both settings of the P2P checkpoint switch (alternating over two passes
		// would double the cost: short chains get both, the long ones alternate)
		importP2PNoCheckpoints = ci%2 == 1
		replay := map[string]any{"engine": "crashwalk", "property": "C17", "chain": name, "corruption": cr.Desc, "checkpoint_height": cpHeight, "p2p_disable_checkpoints": importP2PNoCheckpoints}
		o.rep.Evaluations++
		o.rep.Executions++
		o.rep.DistinctNontrivial++
		setCheckpoint(cp.Height, cp.Hash)
		writeCSVGz("corrupt.csv.gz", cr.Rows)
		db := o.freshDB()
		_, err := importInto(db, "corrupt.csv.gz", true)
		if err == nil {
			o.rep.Outcome("corruption:accepted")
			// accepted: then up to the checkpoint it must be exactly the exported chain
			got := gotRows(db)
			want := expectRows(longest[:cpHeight+1])
			if cr.MustFail || len(got) < len(want) || strings.Join(want, "\n") != strings.Join(got[:len(want)], "\n") {
				o.viol("corrupt.accepted", name+": "+cr.Desc+": start-up succeeded with a file that does not describe the exported chain", replay, "Init fails", "Init succeeded")
			}
			_ = os.Remove(db)
			continue
		}
		o.rep.Outcome("corruption:refused")
		// the refusal must not be forgotten: a later start on the same database
		for _, prepared := range []bool{true, false} {
			dbc := db + ".again"
			core.CopyFile(db, dbc)
			rows2, err2 := importInto(dbc, "corrupt.csv.gz", prepared)
			o.rep.Executions++
			if err2 == nil {
				served := 0
				for _, r := range rows2 {
					if r.Height != "0" || r.Hash != longest[0].Hash {
						served++
					}
				}
				// anything beyond a (re-inserted) genesis is data of the refused import
				left := len(rawDumpNoGenesis(db, longest[0].Hash))
				if served > 0 || (prepared && len(rows2) > 0 && left > 0) {
					o.viol(fmt.Sprintf("corrupt.second_start_accepts/prepared=%v", prepared), name+": "+cr.Desc+": the import was refused, but the next start on the same database succeeds and serves what it left behind", replay, "start fails again or serves no refused rows", fmt.Sprintf("%d rows served", len(rows2)))
				}
			}
			_ = os.Remove(dbc)
		}
		_ = os.Remove(db)
	}
}

func rawDumpNoGenesis(db, genesis string) []core.Row {
	var out []core.Row
	for _, r := range rawDump(db) {
		if r.Hash != genesis {
			out = append(out, r)
		}
	}
	return out
}

func runC17(env core.Env, rep *core.Report) {
	cwdScratch()
	o := &c17{rep: rep}
	rep.Rule = "one evaluation = one export->import round trip of a reachable store, or one import of one single-field corruption of an exported file followed by two further starts; non-trivial = the store holds stale/orphan headers next to the longest chain, boundary field values, or the file is corrupted; distinct by (store, corruption)"
	oldCP := config.Checkpoints
	defer func() { config.Checkpoints = oldCP }()
	n, w := 3, 2
	if env.Tier == "thorough" {
		n = 4
	}
	rep.Bound = fmt.Sprintf("[round trip: every final store of every arrival order of every blueprint N=%d |W|=%d] [corruption matrix: every single-field corruption of every row of chains of length 2,4 (boundary field values) and of rows 0,1,499,500,501,last of a 1203-row chain, row 10000 of a 10051-row chain; every second corruption is imported with p2p.disable_checkpoints=true; checkpoint at the tip and mid-chain]", n, w)
	idx := 0
	core.EnumBlueprints(n, core.WAlphabet(w), func(_ int, b core.Blueprint) {
		idx++
		if !env.Mine(idx) || rep.Expired() {
			return
		}
		u := core.Fabricate(b, 0)
		for _, seq := range perms(n) {
			rig := core.NewRig(core.RigOpts{})
			for _, k := range seq {
				core.SafeAdd(rig.Svc.Chains, u.Raw[k].Source())
			}
			t := core.ModelOf(u, 0, seq)
			ok, _ := core.CheckConsistent(core.DumpHeaders(rig.DB), t)
			rig.CloseKeep()
			if ok {
				rep.States++
				nt := len(t.Order) != len(t.LongestPath())
				o.roundTrip(rig.Path, t, map[string]any{"engine": "crashwalk", "property": "C17", "blueprint_str": b.String(), "blueprint": b, "seq": seq}, nt)
			} else {
				rep.Outcome("skipped:store diverges from C01 model")
			}
			_ = os.Remove(rig.Path)
		}
	})
	// chains for the corruption matrix
	type chainSpec struct {
		name string
		n    int
		at   func(n int) []int
		cps  func(n int) []int32
	}
	all := func(n int) []int {
		var a []int
		for i := 1; i <= n+1; i++ {
			a = append(a, i)
		}
		return a
	}
	specs := []chainSpec{
		{"len2", 1, all, func(n int) []int32 { return []int32{int32(n)} }},
		{"len4-boundary-fields", 3, all, func(n int) []int32 { return []int32{int32(n), 1} }},
		{"len1203", 1202, func(n int) []int { return []int{1, 2, 500, 501, 502, n + 1} }, func(n int) []int32 { return []int32{int32(n)} }},
		// longer than any chunk size an exporter is likely to read the table in
		{"len10051", 10050, func(n int) []int { return []int{10001} }, func(n int) []int32 { return []int32{int32(n)} }},
	}
	for si, cs := range specs {
		if !env.Mine(si) || rep.Expired() {
			continue
		}
		rig := core.NewRig(core.RigOpts{})
		t := core.NewTree()
		prev := core.GenesisRaw().Hash()
		versions := []int32{-1, 2147483647, -2147483648, 1}
		nonces := []uint32{0xffffffff, 0, 0x80000000, 7}
		times := []uint32{0xffffffff, 1, 0x80000000, 1600000000}
		for i := 1; i <= cs.n; i++ {
			var m core.Hash32
			m[0], m[1], m[5] = byte(i), byte(i>>8), 0xab
			raw := core.RawHeader{Version: versions[i%4], Prev: prev, Merkle: m, Time: times[i%4], Bits: core.BitsLight, Nonce: nonces[i%4]}
			if cs.n > 10 {
				raw.Time = 1600000000 + uint32(i)
			}
			t.Add(-1, raw)
			core.SafeAdd(rig.Svc.Chains, raw.Source())
			prev = raw.Hash()
		}
		rig.CloseKeep()
		rows, _, ok := o.roundTrip(rig.Path, t, map[string]any{"engine": "crashwalk", "property": "C17", "chain": cs.name}, true)
		_ = os.Remove(rig.Path)
		if !ok {
			continue
		}
		rep.States++
		for _, cp := range cs.cps(cs.n) {
			at := cs.at(cs.n)
			if int(cp) < cs.n {
				// a mid-chain checkpoint cannot see corruption above it: only rows at or below it
				var below []int
				for _, i := range at {
					if i-1 <= int(cp) {
						below = append(below, i)
					}
				}
				at = below
			}
			o.corruptionMatrix(cs.name, rows, t, at, cp)
		}
		rep.Samples = append(rep.Samples, map[string]any{"corruption_matrix_chain": cs.name, "rows": len(rows) - 1, "first_data_row": rows[1]})
	}
}
