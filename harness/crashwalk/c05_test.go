// Package crashwalk is engine E2: for every ingestion history and every write-transaction
// boundary, kill the ingestion there or make that one write fail, restart on the same
// SQLite file (database.Init), check structural validity and acknowledged headers, redeliver
// and compare with the reference model.
package crashwalk

import (
	"fmt"
	"os"
	"sort"
	"strings"
	"testing"

	"github.com/bitcoin-sv/block-headers-service/domains"
	"github.com/bitcoin-sv/block-headers-service/internal/chaincfg"
	"github.com/bitcoin-sv/block-headers-service/internal/chaincfg/chainhash"
	exppeer "github.com/bitcoin-sv/block-headers-service/internal/transports/p2p/peer"
	"github.com/bitcoin-sv/block-headers-service/internal/wire"
	"github.com/bitcoin-sv/block-headers-service/repository"
	"github.com/bitcoin-sv/block-headers-service/service"
	"github.com/bitcoin-sv/block-headers-service/transports/p2p/p2psync"
	"github.com/bitcoin-sv/block-headers-service/verifh/core"
)

func TestMain(m *testing.M) {
	code := m.Run()
	core.Cleanup()
	os.Exit(code)
}

type killed struct{}

// faultRepo numbers the write calls on repository.Headers and injects one fault.
type faultRepo struct {
	repository.Headers
	n     int
	mode  string // "", "kill", "fail"
	at    int
	fired bool
	log   []string
}

func (f *faultRepo) hit(name string) error {
	f.n++
	f.log = append(f.log, name)
	if f.mode != "" && f.n == f.at && !f.fired {
		f.fired = true
		if f.mode == "kill" {
			panic(killed{})
		}
		return fmt.Errorf("injected storage failure at write %d (%s)", f.n, name)
	}
	return nil
}

func (f *faultRepo) AddHeaderToDatabase(h domains.BlockHeader) error {
	if err := f.hit("insert"); err != nil {
		return err
	}
	return f.Headers.AddHeaderToDatabase(h)
}

func (f *faultRepo) AddMultipleHeadersToDatabase(h []domains.BlockHeader) error {
	if err := f.hit("insert-multi"); err != nil {
		return err
	}
	return f.Headers.AddMultipleHeadersToDatabase(h)
}

func (f *faultRepo) UpdateState(hs []chainhash.Hash, s domains.HeaderState) error {
	if err := f.hit("update->" + string(s)); err != nil {
		return err
	}
	return f.Headers.UpdateState(hs, s)
}

type runResult struct {
	acked   []int               // nodes whose Add returned "stored", in order
	ackRows map[string]core.Row // row of each acknowledged header right after its ack
	codes   []string
	killed  bool
	writes  []string
}

// run submits seq on rig (fault armed in fr); policy "stop" ends at the first failed Add,
// "continue" goes on with the next header as both sync engines do.
func run(rig *core.Rig, fr *faultRepo, u *core.Universe, seq []int, policy string) (res runResult) {
	res.ackRows = map[string]core.Row{}
	defer func() {
		if p := recover(); p != nil {
			if _, ok := p.(killed); ok {
				res.killed = true
				res.writes = fr.log
				return
			}
			panic(p)
		}
	}()
	if policy == "legacy-engine" {
		// the submitter is the default engine's real handleHeadersMsg: one headers message
		// carrying the whole history; what it does after a failed Add is the code's policy
		rec := &recChains{inner: rig.Svc.Chains, u: u, res: &res, rig: rig}
		rig.Svc.Chains = rec
		d := p2psync.VerifNewHeadersDriver(rig.Svc, &chaincfg.MainNetParams, nil, core.Quiet())
		d.Deliver(wireHeaders(u, seq))
		res.writes = fr.log
		return res
	}
	if policy == "experimental-engine" {
		rec := &recChains{inner: rig.Svc.Chains, u: u, res: &res, rig: rig}
		rig.Svc.Chains = rec
		d := exppeer.VerifNewHeadersDriver(rig.Svc.Headers, rec, &chaincfg.MainNetParams, nil, core.Quiet())
		defer d.Close()
		d.Deliver(wireHeaders(u, seq))
		res.writes = fr.log
		return res
	}
	for _, n := range seq {
		r := safeAddNoKillRecover(rig, u, n)
		res.codes = append(res.codes, r.Code())
		if r.Code() == "stored" {
			res.acked = append(res.acked, n)
			for _, row := range core.DumpHeaders(rig.DB) {
				if row.Hash == u.H[n].Hex() {
					res.ackRows[row.Hash] = row
				}
			}
		} else if r.Code() != "duplicate" && policy == "stop" {
			break
		}
	}
	res.writes = fr.log
	return res
}

func wireHeaders(u *core.Universe, seq []int) []*wire.BlockHeader {
	var hs []*wire.BlockHeader
	for _, n := range seq {
		src := u.Raw[n].Source()
		bh := wire.BlockHeader(src)
		hs = append(hs, &bh)
	}
	return hs
}

// recChains records what the engine's Add calls returned.
type recChains struct {
	inner service.Chains
	u     *core.Universe
	res   *runResult
	rig   *core.Rig
}

func (r *recChains) Add(src domains.BlockHeaderSource) (*domains.BlockHeader, error) {
	h, err := r.inner.Add(src)
	code := core.AddResult{Header: h, Err: err}.Code()
	r.res.codes = append(r.res.codes, code)
	if code == "stored" {
		hash := h.Hash.String()
		for n := 1; n < len(r.u.H); n++ {
			if r.u.H[n].Hex() == hash {
				r.res.acked = append(r.res.acked, n)
			}
		}
		for _, row := range core.DumpHeaders(r.rig.DB) {
			if row.Hash == hash {
				r.res.ackRows[hash] = row
			}
		}
	}
	return h, err
}

// safeAddNoKillRecover is core.SafeAdd that lets the kill sentinel through.
func safeAddNoKillRecover(rig *core.Rig, u *core.Universe, n int) (res core.AddResult) {
	defer func() {
		if p := recover(); p != nil {
			if _, ok := p.(killed); ok {
				panic(p)
			}
			res.Panic = fmt.Sprint(p)
		}
	}()
	h, err := rig.Svc.Chains.Add(u.Raw[n].Source())
	return core.AddResult{Header: h, Err: err}
}

// structural validity of a store: exactly one LONGEST header per height 0..tip, parent-linked.
func structural(rows []core.Row) string {
	byH := map[string][]core.Row{}
	maxH := -1
	for _, r := range rows {
		if r.State == core.LLongest {
			byH[r.Height] = append(byH[r.Height], r)
			var h int
			fmt.Sscan(r.Height, &h)
			if h > maxH {
				maxH = h
			}
		}
	}
	if maxH < 0 {
		return "no longest-chain header at all"
	}
	prevHash := ""
	for h := 0; h <= maxH; h++ {
		l := byH[fmt.Sprint(h)]
		if len(l) != 1 {
			return fmt.Sprintf("%d longest-chain headers at height %d (tip height %d)", len(l), h, maxH)
		}
		if h > 0 && l[0].Prev != prevHash {
			return fmt.Sprintf("longest-chain header at height %d is not a child of the one below", h)
		}
		prevHash = l[0].Hash
	}
	return ""
}

func labelMap(rows []core.Row) map[string]string {
	out := map[string]string{}
	for _, r := range rows {
		out[r.Hash[:8]] = r.State + "@" + r.Height
	}
	return out
}

func modelLabelMap(t *core.Tree) map[string]string {
	out := map[string]string{}
	l := t.Labels()
	for _, m := range t.Order {
		out[m.Hash[:8]] = l[m.Hash] + "@" + fmt.Sprint(m.Height)
	}
	return out
}

func eqMap(a, b map[string]string) bool {
	if len(a) != len(b) {
		return false
	}
	for k, v := range a {
		if b[k] != v {
			return false
		}
	}
	return true
}

func perms(n int) [][]int {
	var out [][]int
	var rec func(cur []int, used []bool)
	rec = func(cur []int, used []bool) {
		if len(cur) == n {
			out = append(out, append([]int{}, cur...))
			return
		}
		for i := 1; i <= n; i++ {
			if !used[i] {
				used[i] = true
				rec(append(cur, i), used)
				used[i] = false
			}
		}
	}
	rec(nil, make([]bool, n+1))
	return out
}

func hasFork(b core.Blueprint) bool {
	cnt := map[int]int{}
	for i := 1; i <= b.N(); i++ {
		if p := b.Nodes[i].Parent; p >= 0 {
			cnt[p]++
			if cnt[p] > 1 {
				return true
			}
		}
	}
	return false
}

type scenario struct {
	B      core.Blueprint `json:"blueprint"`
	BStr   string         `json:"blueprint_str"`
	Seq    []int          `json:"seq"`
	Mode   string         `json:"mode"`
	At     int            `json:"at_write"`
	Policy string         `json:"policy"`
	Redel  []int          `json:"redelivery_order"`
	Engine string         `json:"engine"`
	Deep   bool           `json:"deep,omitempty"`
}

func TestCheck(t *testing.T) {
	env := core.GetEnv()
	rep := core.NewReport(env, "crashwalk")
	rep.Rule = "one evaluation = one (history, write index, fault mode, redelivery order) execution: run to the fault, restart with database.Init, check, redeliver, compare with the reference model; non-trivial = the history contains a reorganisation (the fault can fall between its transactions) or the fault hits a header that later headers build on; distinct by that tuple"
	defer func() { rep.Write(env.Out) }()
	if env.Prop == "C17" {
		runC17(env, rep)
		return
	}
	if env.Replay != "" {
		replay(t, env, rep)
		return
	}
	type fam struct {
		n, w      int
		filter    func(core.Blueprint) bool
		allRedel  bool
		reorgOnly bool
	}
	fams := []fam{{n: 3, w: 2, allRedel: true}, {n: 4, w: 2, filter: hasFork, reorgOnly: true}}
	if env.Tier == "thorough" {
		fams = []fam{{n: 3, w: 3, allRedel: true}, {n: 4, w: 2, allRedel: false}, {n: 5, w: 2, filter: hasFork, reorgOnly: true}}
	}
	idx := 0
	for _, f := range fams {
		rep.Bound += fmt.Sprintf("[N=%d |W|=%d all-redelivery-orders=%v reorg-histories-only=%v] ", f.n, f.w, f.allRedel, f.reorgOnly)
		core.EnumBlueprints(f.n, core.WAlphabet(f.w), func(_ int, b core.Blueprint) {
			if f.filter != nil && !f.filter(b) {
				return
			}
			idx++
			if !env.Mine(idx) || rep.Expired() {
				return
			}
			u := core.Fabricate(b, 0)
			for _, seq := range perms(f.n) {
				history(rep, u, seq, f.allRedel, f.reorgOnly)
			}
		})
	}
	idx++
	if env.Mine(idx) && !rep.Expired() {
		rep.Bound += "[one deep history: 520 + 521 headers, fault at every write of the reorganising submission] "
		deepHistory(rep)
	}
}

// deepHistory: one history whose last submission reorganises 520 headers off the longest chain
// and 520 onto it; the fault falls at every write of that last submission (and only there).
func deepHistory(rep *core.Report) {
	const n = 520
	nodes := make([]core.BNode, 2*n+2)
	for i := 1; i <= n; i++ {
		nodes[i] = core.BNode{Parent: i - 1, Bits: core.BitsLight}
	}
	nodes[n+1] = core.BNode{Parent: 0, Bits: core.BitsLight}
	for i := n + 2; i <= 2*n+1; i++ {
		nodes[i] = core.BNode{Parent: i - 1, Bits: core.BitsLight}
	}
	u := core.Fabricate(core.Blueprint{Nodes: nodes}, 0)
	var seq []int
	for i := 1; i <= 2*n+1; i++ {
		seq = append(seq, i)
	}
	fr0 := &faultRepo{}
	rig0 := core.NewRig(core.RigOpts{WrapHeaders: func(h repository.Headers) repository.Headers { fr0.Headers = h; return fr0 }})
	for _, k := range seq {
		safeAddNoKillRecover(rig0, u, k)
	}
	rows0 := core.DumpHeaders(rig0.DB)
	rig0.Close()
	if ok, why := core.CheckConsistent(rows0, core.ModelOf(u, 0, seq)); !ok {
		rep.Outcome("skipped:deep history diverges from C01 model: " + why)
		return
	}
	writes := fr0.log
	first := len(writes)
	for i, w := range writes {
		if strings.HasPrefix(w, "update->") {
			first = i
			break
		}
	}
	rep.States++
	rep.Outcome(fmt.Sprintf("deep-reorg:%d writes in the reorganising submission", len(writes)-first))
	for at := first + 1; at <= len(writes); at++ {
		for _, mode := range []string{"kill", "fail"} {
			sc := scenario{B: u.B, BStr: fmt.Sprintf("deep reorganisation, %d + %d headers", n, n+1), Seq: seq, Mode: mode, At: at, Policy: "stop", Redel: seq, Engine: "crashwalk", Deep: true}
			one(rep, u, sc, true, writes[at-1])
		}
	}
}

func history(rep *core.Report, u *core.Universe, seq []int, allRedel, reorgOnly bool) {
	// uninterrupted run: number of writes, and agreement with the model (else C01's business)
	fr0 := &faultRepo{}
	rig0 := core.NewRig(core.RigOpts{WrapHeaders: func(h repository.Headers) repository.Headers { fr0.Headers = h; return fr0 }})
	r0 := run(rig0, fr0, u, seq, "continue")
	rows0 := core.DumpHeaders(rig0.DB)
	rig0.Close()
	model0 := core.ModelOf(u, 0, seq)
	if ok, _ := core.CheckConsistent(rows0, model0); !ok || len(r0.acked) != len(seq) {
		rep.Outcome("skipped:uninterrupted run diverges from C01 model")
		return
	}
	writes := len(r0.writes)
	isReorg := writes > len(seq)
	if reorgOnly && !isReorg {
		return
	}
	rep.States++
	redels := [][]int{seq}
	if allRedel {
		redels = perms(len(seq))
	}
	for at := 1; at <= writes; at++ {
		for _, mp := range [][2]string{{"kill", "stop"}, {"fail", "stop"}, {"fail", "legacy-engine"}, {"fail", "experimental-engine"}} {
			for _, rd := range redels {
				sc := scenario{B: u.B, BStr: u.B.String(), Seq: seq, Mode: mp[0], At: at, Policy: mp[1], Redel: rd, Engine: "crashwalk"}
				one(rep, u, sc, isReorg, r0.writes[at-1])
			}
		}
	}
}

func one(rep *core.Report, u *core.Universe, sc scenario, isReorg bool, writeName string) {
	viol := func(kind, what string, exp, obs any) {
		rep.Violate(core.Violation{Kind: kind + "/" + sc.Mode + "-" + sc.Policy + "@" + writeName, What: what, Replay: sc, Expected: exp, Observed: obs})
	}
	rep.Evaluations++
	rep.Executions++
	if isReorg {
		rep.DistinctNontrivial++
	}
	fr := &faultRepo{mode: sc.Mode, at: sc.At}
	rig := core.NewRig(core.RigOpts{WrapHeaders: func(h repository.Headers) repository.Headers { fr.Headers = h; return fr }})
	r := run(rig, fr, u, sc.Seq, sc.Policy)
	rep.Transitions += int64(len(r.codes))
	rig.CloseKeep() // the process is gone; whatever was committed stays in the file
	rep.Outcome(fmt.Sprintf("fault:%s-%s@%s", sc.Mode, sc.Policy, writeName))

	// restart
	rig2 := core.OpenRig(rig.Path, core.RigOpts{ReInit: true})
	defer rig2.Close()
	rows := core.DumpHeaders(rig2.DB)
	if why := structural(rows); why != "" {
		viol("restart.structure", "after restart: "+why, nil, labelMap(rows))
	}
	byHash := map[string]core.Row{}
	for _, row := range rows {
		byHash[row.Hash] = row
	}
	for h, ack := range r.ackRows {
		now, ok := byHash[h]
		if !ok {
			viol("restart.ack_lost", "an acknowledged header is gone after restart", ack.String(), nil)
		} else if now.Immutable() != ack.Immutable() {
			viol("restart.ack_altered", "an acknowledged header changed", ack.Immutable(), now.Immutable())
		}
	}
	// a second start must not touch anything
	d1 := core.Digest(rows)
	rig2.CloseKeep()
	// (the second start runs with db.prepared_db = true, the standing configuration of an
	// installation set up from a prepared file: the import must be skipped)
	rig3 := core.OpenRig(rig.Path, core.RigOpts{ReInit: true, Prepared: true})
	if rig3.InitErr != nil {
		viol("restart.prepared_failed", "a second database.Init (prepared_db=true) fails on the store the crash left", nil, rig3.InitErr.Error())
	}
	if d2 := core.Digest(core.DumpHeaders(rig3.DB)); d2 != d1 {
		viol("restart.not_idempotent", "a second database.Init changed stored headers", d1, d2)
	}
	rig2.DB, rig2.Svc, rig2.Repo = rig3.DB, rig3.Svc, rig3.Repo

	// redelivery of the full history
	var stuck []string
	if sc.Policy == "legacy-engine" || sc.Policy == "experimental-engine" {
		var rr runResult
		rr.ackRows = map[string]core.Row{}
		rec := &recChains{inner: rig2.Svc.Chains, u: u, res: &rr, rig: rig2}
		rig2.Svc.Chains = rec
		if sc.Policy == "legacy-engine" {
			d := p2psync.VerifNewHeadersDriver(rig2.Svc, &chaincfg.MainNetParams, nil, core.Quiet())
			d.Deliver(wireHeaders(u, sc.Redel))
		} else {
			d := exppeer.VerifNewHeadersDriver(rig2.Svc.Headers, rec, &chaincfg.MainNetParams, nil, core.Quiet())
			d.Deliver(wireHeaders(u, sc.Redel))
			d.Close()
		}
		rep.Transitions += int64(len(rr.codes))
		for i, c := range rr.codes {
			if c != "stored" && c != "duplicate" {
				stuck = append(stuck, fmt.Sprintf("header %d of the redelivered batch: %s", i, c))
			}
		}
		if len(rr.codes) != len(sc.Redel) {
			stuck = append(stuck, fmt.Sprintf("engine processed %d of %d redelivered headers", len(rr.codes), len(sc.Redel)))
		}
	} else {
		for _, n := range sc.Redel {
			res := core.SafeAdd(rig2.Svc.Chains, u.Raw[n].Source())
			rep.Transitions++
			if c := res.Code(); c != "stored" && c != "duplicate" {
				stuck = append(stuck, fmt.Sprintf("node %d: %s %v", n, c, res.Err))
			}
		}
	}
	if len(stuck) > 0 {
		viol("redelivery.rejected", "redelivered headers are refused", "stored or duplicate", stuck)
	}
	final := core.DumpHeaders(rig2.DB)
	// reference: what was acknowledged before the fault keeps its arrival position, the rest
	// arrives in redelivery order
	eff := append([]int{}, r.acked...)
	have := map[int]bool{}
	for _, n := range r.acked {
		have[n] = true
	}
	for _, n := range sc.Redel {
		if !have[n] {
			eff = append(eff, n)
		}
	}
	want := core.ModelOf(u, 0, eff)
	if fmt.Sprint(sc.Redel) == fmt.Sprint(sc.Seq) {
		// same headers in the same order: the final state must be that of the run nothing
		// interrupted
		want = core.ModelOf(u, 0, sc.Seq)
		eff = sc.Seq
	}
	if !eqMap(labelMap(final), modelLabelMap(want)) {
		cls := "redelivery.final_state"
		// name the class the oracle can recognise: a header stored as orphan because its
		// parent's write failed and ingestion went on
		if sc.Policy != "stop" {
			cls = "redelivery.final_state.orphaned_by_skipped_parent"
		}
		viol(cls, fmt.Sprintf("after restart + redelivery the store differs from an uninterrupted run (effective arrival order %v)", eff), modelLabelMap(want), labelMap(final))
	} else if why := structural(final); why != "" {
		viol("redelivery.structure", why, nil, labelMap(final))
	}
	tip := rig2.Svc.Headers.GetTip()
	if tip == nil || tip.Hash.String() != want.Best().Hash {
		viol("redelivery.tip", "tip after redelivery is not the model's best header", want.Best().Hash, fmt.Sprint(tip))
	}
	rep.Sample(func() any {
		return map[string]any{"scenario": sc, "writes_of_history": writeName, "acked_before_fault": r.acked, "final_labels": labelMap(final)}
	})
}

func replay(t *testing.T, env core.Env, rep *core.Report) {
	var rf struct {
		Replay scenario `json:"replay"`
	}
	core.ReadJSON(env.Replay, &rf)
	sc := rf.Replay
	u := core.Fabricate(sc.B, 0)
	fr0 := &faultRepo{}
	rig0 := core.NewRig(core.RigOpts{WrapHeaders: func(h repository.Headers) repository.Headers { fr0.Headers = h; return fr0 }})
	r0 := run(rig0, fr0, u, sc.Seq, "continue")
	rig0.Close()
	if sc.At < 1 || sc.At > len(r0.writes) {
		t.Fatalf("replay: history has %d writes, fault at %d", len(r0.writes), sc.At)
	}
	one(rep, u, sc, true, r0.writes[sc.At-1])
	rep.Bound = "replay of " + env.Replay
	_ = sort.Ints
}
