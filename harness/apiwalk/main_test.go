// Package apiwalk is engine E5: breadth-first search over operation sequences and complete
// argument products on the production gin engine (and the websocket connect handler) over
// the SQL-backed services.
package apiwalk

import (
	"os"
	"testing"

	"github.com/bitcoin-sv/block-headers-service/verifh/core"
)

func TestMain(m *testing.M) {
	code := m.Run()
	core.Cleanup()
	os.Exit(code)
}

var props = map[string]func(env core.Env, rep *core.Report){}

func TestCheck(t *testing.T) {
	env := core.GetEnv()
	f := props[env.Prop]
	if f == nil {
		t.Fatalf("unknown VERIF_PROP %q", env.Prop)
	}
	rep := core.NewReport(env, "apiwalk")
	if env.Replay != "" && env.Prop == "C12" {
		replayC12(env, rep)
		rep.Write(env.Out)
		return
	}
	f(env, rep)
	rep.Write(env.Out)
}

func adminHdr(r *core.Rig) map[string]string {
	return map[string]string{"Authorization": "Bearer " + r.Cfg.HTTP.AuthToken}
}

type errJSON struct {
	Code    string `json:"code"`
	Message string `json:"message"`
}

func trunc(b []byte) string {
	if len(b) > 300 {
		return string(b[:300]) + "..."
	}
	return string(b)
}
