package apiwalk

import (
	"encoding/json"
	"errors"
	"fmt"
	"io"
	"net/http"
	"net/http/httptest"
	"net/url"
	"os"
	"sort"
	"strings"
	"sync"
	"time"

	"github.com/bitcoin-sv/block-headers-service/config"
	"github.com/bitcoin-sv/block-headers-service/domains"
	"github.com/bitcoin-sv/block-headers-service/notification"
	"github.com/bitcoin-sv/block-headers-service/transports/http/client"
	"github.com/bitcoin-sv/block-headers-service/verifh/core"
)

func init() { props["C12"] = runC12 }

// ---- operations and model ---------------------------------------------------------------

type wop struct {
	Kind string    `json:"op"`             // reg | del | notify | restart
	U    int       `json:"url,omitempty"`  // 0 | 1
	Auth string    `json:"auth,omitempty"` // bearer | custom | none
	Out  [2]string `json:"outcomes"`       // per url: 200 | 500 | transport | badbody
}

func (o wop) String() string {
	switch o.Kind {
	case "reg":
		return fmt.Sprintf("reg(u%d,%s)", o.U, o.Auth)
	case "del":
		return fmt.Sprintf("del(u%d)", o.U)
	case "notify":
		return fmt.Sprintf("notify(%s,%s)", o.Out[0], o.Out[1])
	}
	return o.Kind
}

type mhook struct {
	Exists    bool
	Auth      string
	Active    bool
	Errors    int
	Last      string // "", 200, 500, transport, badbody
	Attempted bool
}

type wmodel struct {
	H   [2]mhook
	Max int
}

// (the second URL carries a percent-escape and a plus sign of its own: the API's url parameter
// must give back exactly the registered string)
var hookURLs = [2]string{"http://hook-one.example/cb", "http://hook-two.example/cb?topic=a%2Fb&tag=x+y"}

const hookToken = "s3cr3t"
const customHeader = "X-Api-Key"

// a second custom header name and secret, for the runs with two webhooks
const customHeader2 = "X-Second-Key"
const hookToken2 = "0th3r"

// ---- scripted client ----------------------------------------------------------------------

type call struct {
	Headers map[string]string
	Method  string
	URL     string
	Body    string
}

type scripted struct {
	out   map[string]string
	calls []call
}

type badBody struct{}

func (badBody) Read([]byte) (int, error) { return 0, errors.New("connection reset while reading body") }
func (badBody) Close() error             { return nil }

func (s *scripted) Call(headers map[string]string, method string, u string, body any) (*http.Response, error) {
	b, _ := json.Marshal(body)
	h := map[string]string{}
	for k, v := range headers {
		h[k] = v
	}
	s.calls = append(s.calls, call{h, method, u, string(b)})
	switch s.out[u] {
	case "200":
		return &http.Response{StatusCode: 200, Body: io.NopCloser(strings.NewReader("thanks"))}, nil
	case "500":
		return &http.Response{StatusCode: 500, Body: io.NopCloser(strings.NewReader("boom"))}, nil
	case "badbody":
		return &http.Response{StatusCode: 200, Body: badBody{}}, nil
	default:
		return nil, errors.New("dial tcp: connection refused")
	}
}

// ---- world ----------------------------------------------------------------------------------

type world struct {
	rig    *core.Rig
	api    *core.API
	client *scripted
	max    int
}

func openWorld(path string, max int, prod notification.WebhookTargetClient) *world {
	w := &world{max: max, client: &scripted{}}
	w.rig = core.OpenRig(path, core.RigOpts{Cfg: func(c *config.AppConfig) { c.Webhook.MaxTries = max }})
	var cl notification.WebhookTargetClient = w.client
	if prod != nil {
		cl = prod
	}
	w.rig.Svc.Webhooks = notification.NewWebhooksService(w.rig.Repo.Webhooks, cl, core.Quiet(), w.rig.Cfg.Webhook)
	w.api = w.rig.NewAPI(core.APIOpts{})
	return w
}

func (w *world) restart(prod notification.WebhookTargetClient) *world {
	p := w.rig.Path
	w.rig.CloseKeep()
	return openWorld(p, w.max, prod)
}

var testEvent = domains.HeaderAdded(&domains.BlockHeader{Height: 7, State: domains.LongestChain})

type hookJSON struct {
	URL               string    `json:"url"`
	LastEmitStatus    string    `json:"lastEmitStatus"`
	LastEmitTimestamp time.Time `json:"lastEmitTimestamp"`
	ErrorsCount       int       `json:"errorsCount"`
	Active            bool      `json:"active"`
}

// ---- the checked step -----------------------------------------------------------------------

type stepper struct {
	rep    *core.Report
	hist   []wop
	max    int
	check  bool
	urls   [2]string
	prodOf func() notification.WebhookTargetClient
}

func (s *stepper) viol(kind, what string, exp, obs any) {
	if !s.check {
		return
	}
	var hs []string
	for _, o := range s.hist {
		hs = append(hs, o.String())
	}
	s.rep.Violate(core.Violation{Kind: kind, What: what, Replay: map[string]any{"engine": "apiwalk", "property": "C12", "max_tries": s.max, "ops": s.hist, "ops_str": strings.Join(hs, " ")}, Expected: exp, Observed: obs})
}

func authBody(u, auth string) []byte {
	ra := map[string]string{}
	switch auth {
	case "bearer":
		ra = map[string]string{"type": "bearer", "token": hookToken}
	case "custom":
		ra = map[string]string{"type": "custom_header", "token": hookToken, "header": customHeader}
	case "custom2":
		ra = map[string]string{"type": "custom_header", "token": hookToken2, "header": customHeader2}
	}
	b, _ := json.Marshal(map[string]any{"url": u, "requiredAuth": ra})
	return b
}

// apply executes one operation on the world and the model and compares.
func (s *stepper) apply(w *world, m *wmodel, o wop) *world {
	hdr := adminHdr(w.rig)
	hdr["Content-Type"] = "application/json"
	switch o.Kind {
	case "reg":
		r := w.api.Do("POST", "/api/v1/webhook", authBody(s.urls[o.U], o.Auth), hdr)
		h := &m.H[o.U]
		switch {
		case !h.Exists:
			*h = mhook{Exists: true, Auth: o.Auth, Active: true}
			if r.Code != 200 {
				s.viol("register.new", "registering a new webhook", 200, fmt.Sprintf("%d %s", r.Code, r.Body))
			}
		case h.Active:
			var ej struct{ Code string }
			if r.Code < 400 || r.Code >= 500 || !r.JSON(&ej) || ej.Code == "" {
				s.viol("register.active_not_refused", "re-registering an active webhook must be refused with a structured 4xx", "4xx", fmt.Sprintf("%d %s", r.Code, r.Body))
			}
		default:
			h.Active, h.Errors = true, 0
			if r.Code != 200 {
				s.viol("register.reactivate", "re-registering an inactive webhook must reactivate it", 200, fmt.Sprintf("%d %s", r.Code, r.Body))
			}
		}
	case "del":
		r := w.api.Do("DELETE", "/api/v1/webhook?url="+url.QueryEscape(s.urls[o.U]), nil, hdr)
		h := &m.H[o.U]
		if h.Exists {
			*h = mhook{}
			if r.Code != 200 {
				s.viol("delete.existing", "deleting a registered webhook", 200, fmt.Sprintf("%d %s", r.Code, r.Body))
			}
		} else if r.Code != 404 {
			s.viol("delete.absent", "deleting an unknown webhook", 404, fmt.Sprintf("%d %s", r.Code, r.Body))
		}
	case "restart":
		var prod notification.WebhookTargetClient
		if s.prodOf != nil {
			prod = s.prodOf()
		}
		w = w.restart(prod)
	case "notify":
		w.client.calls = nil
		w.client.out = map[string]string{s.urls[0]: o.Out[0], s.urls[1]: o.Out[1]}
		w.rig.Svc.Webhooks.Notify(testEvent)
		want := map[string]bool{}
		for i := range m.H {
			h := &m.H[i]
			if h.Exists && h.Active {
				want[s.urls[i]] = true
				h.Attempted, h.Last = true, o.Out[i]
				if o.Out[i] == "200" {
					h.Errors = 0
				} else {
					h.Errors++
					if h.Errors >= m.Max {
						h.Active = false
					}
				}
			}
		}
		if s.prodOf == nil {
			s.checkCalls(w.client.calls, want, m)
		}
	}
	// observable state after every operation
	for i := range m.H {
		s.checkGet(w, m, i)
	}
	return w
}

func (s *stepper) checkCalls(calls []call, want map[string]bool, m *wmodel) {
	seen := map[string]int{}
	for _, c := range calls {
		seen[c.URL]++
		idx := -1
		for i, u := range s.urls {
			if u == c.URL {
				idx = i
			}
		}
		if idx < 0 || !want[c.URL] {
			s.viol("notify.unexpected_call", "a webhook that is inactive, deleted or unknown was called", nil, c.URL)
			continue
		}
		if c.Method != "POST" {
			s.viol("notify.method", "webhook call is not a POST", "POST", c.Method)
		}
		var ev struct {
			Operation string `json:"operation"`
		}
		if json.Unmarshal([]byte(c.Body), &ev) != nil || ev.Operation != "ADD" {
			s.viol("notify.body", "webhook body is not the event", "ADD event", c.Body)
		}
		auth := m.H[idx].Auth
		okHdr := true
		switch auth {
		case "bearer":
			okHdr = c.Headers["Authorization"] == "Bearer "+hookToken && c.Headers[customHeader] == ""
		case "custom":
			okHdr = c.Headers[customHeader] == hookToken && c.Headers["Authorization"] == ""
		default:
			okHdr = c.Headers["Authorization"] == "" && c.Headers[customHeader] == ""
		}
		for k := range c.Headers {
			if k != "Authorization" && k != customHeader && k != "Content-Type" && k != "" {
				okHdr = false
			}
		}
		if !okHdr {
			s.viol("notify.auth_header/"+auth, "webhook call does not carry exactly its configured authorisation header", auth, c.Headers)
		}
	}
	for u := range want {
		if seen[u] != 1 {
			s.viol("notify.call_count", "an active webhook must receive exactly one POST per event", 1, fmt.Sprintf("%s called %d times", u, seen[u]))
		}
	}
}

func (s *stepper) checkGet(w *world, m *wmodel, i int) {
	h := m.H[i]
	r := w.api.Do("GET", "/api/v1/webhook?url="+url.QueryEscape(s.urls[i]), nil, adminHdr(w.rig))
	if !h.Exists {
		if r.Code != 404 {
			s.viol("get.absent", "GET of an unknown/deleted webhook", 404, fmt.Sprintf("%d %s", r.Code, r.Body))
		}
		return
	}
	var hj hookJSON
	if r.Code != 200 || !r.JSON(&hj) {
		s.viol("get.status", "GET of a registered webhook", 200, fmt.Sprintf("%d %s", r.Code, r.Body))
		return
	}
	if hj.Active != h.Active || hj.ErrorsCount != h.Errors {
		cls := "get.state"
		if h.Active && !hj.Active {
			cls = "get.state.deactivated_early"
		}
		s.viol(cls, fmt.Sprintf("webhook u%d state (max_tries %d)", i, m.Max), fmt.Sprintf("active=%v errors=%d", h.Active, h.Errors), fmt.Sprintf("active=%v errors=%d", hj.Active, hj.ErrorsCount))
	}
	if h.Attempted {
		okStatus := hj.LastEmitStatus != ""
		switch h.Last {
		case "200":
			okStatus = strings.HasPrefix(hj.LastEmitStatus, "200")
		case "500":
			okStatus = strings.HasPrefix(hj.LastEmitStatus, "500")
		}
		if !okStatus {
			s.viol("get.last_status", "lastEmitStatus does not report the last attempt", h.Last, hj.LastEmitStatus)
		}
		if hj.LastEmitTimestamp.Year() < 2000 {
			s.viol("get.last_timestamp", "lastEmitTimestamp does not report the time of the last attempt", "a current time", hj.LastEmitTimestamp)
		}
	}
}

func totalViolations(rep *core.Report) int64 {
	var n int64
	for _, c := range rep.ViolationCounts {
		n += c
	}
	return n
}

func (m wmodel) key() string { return fmt.Sprintf("%+v", m) }

func implKey(w *world) string {
	rows := core.DumpTable(w.rig.DB, "webhooks")
	var out []string
	for _, r := range rows {
		f := strings.Split(r, "|")
		// url|token_header|token|created_at|last_emit_status|last_emit_timestamp|errors_count|is_active
		if len(f) >= 8 {
			st := f[4]
			if len(st) > 3 {
				st = st[:3]
			}
			ts := "set"
			if strings.HasPrefix(f[5], "1970") || strings.HasPrefix(f[5], "0001") {
				ts = "unset"
			}
			out = append(out, strings.Join([]string{f[0], f[1], f[2], st, ts, f[6], f[7]}, "|"))
		}
	}
	return strings.Join(out, ";")
}

func enabledOps(m wmodel) []wop {
	var ops []wop
	for u := 0; u < 2; u++ {
		if m.H[u].Exists {
			ops = append(ops, wop{Kind: "reg", U: u, Auth: m.H[u].Auth}, wop{Kind: "del", U: u})
		} else {
			for _, a := range []string{"bearer", "custom", "none"} {
				ops = append(ops, wop{Kind: "reg", U: u, Auth: a})
			}
			if !m.H[1-u].Exists || u == 0 {
				ops = append(ops, wop{Kind: "del", U: u})
			}
		}
	}
	outs := []string{"200", "500", "transport", "badbody"}
	a0, a1 := m.H[0].Exists && m.H[0].Active, m.H[1].Exists && m.H[1].Active
	for _, o0 := range outs {
		for _, o1 := range outs {
			// an outcome only matters for a hook that will be called
			if (!a0 && o0 != "200") || (!a1 && o1 != "200") {
				continue
			}
			ops = append(ops, wop{Kind: "notify", Out: [2]string{o0, o1}})
		}
	}
	ops = append(ops, wop{Kind: "restart"})
	return ops
}

// build replays a history on a fresh store; only the last step is checked (the prefix was
// checked when it was first explored).
func build(rep *core.Report, max int, hist []wop) (*world, wmodel) {
	path := core.NewStoreFile()
	w := openWorld(path, max, nil)
	m := wmodel{Max: max}
	for i, o := range hist {
		st := &stepper{rep: rep, hist: hist[:i+1], max: max, check: i == len(hist)-1, urls: hookURLs}
		w = st.apply(w, &m, o)
	}
	return w, m
}

func runC12(env core.Env, rep *core.Report) {
	rep.Rule = "one evaluation = one operation (register/delete/notify with per-hook outcomes/restart) applied in one reachable state of the webhook machine, checked against the counter model through the scripted client's call log and GET /webhook; plus every outcome sequence of length <=3 replayed through the production HTTP client against a loopback server; non-trivial = the history contains at least one failed delivery; distinct by (max_tries, canonical state, operation)"
	depth := 6
	if env.Tier == "thorough" {
		depth = 9
	}
	rep.Bound = fmt.Sprintf("[BFS over {register(bearer|custom|none), delete, notify(4x4 outcomes), restart} on 2 urls, max_tries in {1,2,3}, depth %d, state = webhooks table + model] [production client: 3 auth kinds x all outcome sequences of length<=3 x max_tries {1,2,3}]", depth)
	job := 0
	for _, max := range []int{1, 2, 3} {
		job++
		if !env.Mine(job) {
			continue
		}
		seen := map[string]bool{}
		type node struct {
			hist []wop
		}
		w0, m0 := build(rep, max, nil)
		seen[implKey(w0)+"#"+m0.key()] = true
		w0.rig.Close()
		frontier := []node{{nil}}
		rep.States++
		closed := false
		for d := 0; d < depth && len(frontier) > 0; d++ {
			var next []node
			for _, nd := range frontier {
				if rep.Expired() {
					return
				}
				_, m := modelOnly(max, nd.hist)
				for _, o := range enabledOps(m) {
					h := append(append([]wop{}, nd.hist...), o)
					nviol := totalViolations(rep)
					w, m2 := build(rep, max, h)
					diverged := totalViolations(rep) != nviol
					rep.Transitions++
					rep.Executions++
					rep.Evaluations++
					failed := false
					for _, x := range h {
						if x.Kind == "notify" && (x.Out[0] != "200" || x.Out[1] != "200") {
							failed = true
						}
					}
					if failed {
						rep.DistinctNontrivial++
					}
					rep.Outcome("op:" + o.Kind)
					k := implKey(w) + "#" + m2.key()
					w.rig.Close()
					if diverged {
						rep.Outcome("pruned_after_violation")
					} else if !seen[k] {
						seen[k] = true
						rep.States++
						next = append(next, node{h})
					}
					rep.Sample(func() any {
						var hs []string
						for _, x := range h {
							hs = append(hs, x.String())
						}
						return map[string]any{"max_tries": max, "ops": strings.Join(hs, " "), "model_after": m2}
					})
				}
			}
			frontier = next
			if len(frontier) == 0 {
				closed = true
			}
		}
		rep.Extra[fmt.Sprintf("state_set_closed_max%d", max)] = closed
		if !closed {
			rep.CapsHit = append(rep.CapsHit, fmt.Sprintf("max_tries=%d: depth bound %d reached before the state set closed", max, depth))
		}
	}
	prodClientRuns(env, rep, &job)
}

// modelOnly runs the model over a history (no implementation involved).
func modelOnly(max int, hist []wop) (struct{}, wmodel) {
	m := wmodel{Max: max}
	for _, o := range hist {
		switch o.Kind {
		case "reg":
			h := &m.H[o.U]
			if !h.Exists {
				*h = mhook{Exists: true, Auth: o.Auth, Active: true}
			} else if !h.Active {
				h.Active, h.Errors = true, 0
			}
		case "del":
			m.H[o.U] = mhook{}
		case "notify":
			for i := range m.H {
				h := &m.H[i]
				if h.Exists && h.Active {
					h.Attempted, h.Last = true, o.Out[i]
					if o.Out[i] == "200" {
						h.Errors = 0
					} else {
						h.Errors++
						if h.Errors >= m.Max {
							h.Active = false
						}
					}
				}
			}
		}
	}
	return struct{}{}, m
}

// ---- production client against a loopback server -------------------------------------------------

type recvd struct {
	Method, Path, Auth, Custom, CT, Body string
	Custom2                              string
	Secrets                              []string // other headers whose value is one of the configured secrets
}

// secretElsewhere lists headers, other than the three authorisation headers the webhooks of a
// run are configured with, that carry one of the secrets.
func secretElsewhere(h http.Header) []string {
	var out []string
	for k, vs := range h {
		if k == "Authorization" || k == customHeader || k == customHeader2 {
			continue
		}
		for _, v := range vs {
			if strings.Contains(v, hookToken) || strings.Contains(v, hookToken2) {
				out = append(out, k)
			}
		}
	}
	sort.Strings(out)
	return out
}

// authOK: of the authorisation headers configured for any webhook of the run, exactly the
// webhook's own arrives (headers that have nothing to do with authorisation are not judged).
func authOK(auth string, c recvd) bool {
	if len(c.Secrets) > 0 {
		return false
	}
	switch auth {
	case "bearer":
		return c.Auth == "Bearer "+hookToken && c.Custom == "" && c.Custom2 == ""
	case "custom":
		return c.Custom == hookToken && c.Auth == "" && c.Custom2 == ""
	case "custom2":
		return c.Custom2 == hookToken2 && c.Auth == "" && c.Custom == ""
	}
	return c.Auth == "" && c.Custom == "" && c.Custom2 == ""
}

func prodClientRuns(env core.Env, rep *core.Report, job *int) {
	var mu sync.Mutex
	var got []recvd
	outcome := "200"
	srv := httptest.NewServer(http.HandlerFunc(func(w http.ResponseWriter, r *http.Request) {
		b, _ := io.ReadAll(r.Body)
		mu.Lock()
		got = append(got, recvd{r.Method, r.URL.Path, r.Header.Get("Authorization"), r.Header.Get(customHeader), r.Header.Get("Content-Type"), string(b), r.Header.Get(customHeader2), secretElsewhere(r.Header)})
		oc := outcome
		mu.Unlock()
		switch oc {
		case "200":
			// a receiver may acknowledge verbosely: the answer is longer than any column the
			// service might want to keep of it
			w.WriteHeader(200)
			_, _ = w.Write([]byte("thanks " + strings.Repeat("for the header, it was received and filed. ", 30)))
		case "500":
			w.WriteHeader(500)
			_, _ = w.Write([]byte("boom"))
		default:
			hj, ok := w.(http.Hijacker)
			if !ok {
				return
			}
			conn, _, err := hj.Hijack()
			if err != nil {
				return
			}
			if oc == "badbody" {
				_, _ = conn.Write([]byte("HTTP/1.1 200 OK\r\nContent-Length: 10\r\n\r\nab"))
			}
			if oc == "badbodylate" {
				// the body breaks only after several hundred bytes have arrived
				_, _ = conn.Write([]byte("HTTP/1.1 200 OK\r\nContent-Length: 2000\r\n\r\n" + strings.Repeat("z", 600)))
			}
			_ = conn.Close()
		}
	}))
	defer srv.Close()
	outs := []string{"200", "500", "transport", "badbody", "badbodylate"}
	var seqs [][]string
	for _, a := range outs {
		seqs = append(seqs, []string{a})
		for _, b := range outs {
			seqs = append(seqs, []string{a, b})
			for _, c := range outs {
				seqs = append(seqs, []string{a, b, c})
			}
		}
	}
	for _, max := range []int{1, 2, 3} {
		for _, auth := range []string{"bearer", "custom", "none"} {
			*job++
			if !env.Mine(*job) {
				continue
			}
			for _, sq := range seqs {
				if rep.Expired() {
					return
				}
				urls := [2]string{srv.URL + "/hook", srv.URL + "/unused"}
				path := core.NewStoreFile()
				w := openWorld(path, max, client.NewWebhookTargetClient())
				m := wmodel{Max: max}
				hist := []wop{{Kind: "reg", U: 0, Auth: auth}}
				st := &stepper{rep: rep, hist: hist, max: max, check: true, urls: urls, prodOf: client.NewWebhookTargetClient}
				w = st.apply(w, &m, hist[0])
				expectCalls := 0
				for _, oc := range sq {
					mu.Lock()
					outcome = oc
					mu.Unlock()
					if m.H[0].Active {
						expectCalls++
					}
					o := wop{Kind: "notify", Out: [2]string{oc, "200"}}
					hist = append(hist, o)
					st.hist = hist
					w = st.apply(w, &m, o)
				}
				rep.Executions++
				rep.Evaluations++
				rep.DistinctNontrivial++
				rep.Outcome("production-client:" + auth)
				mu.Lock()
				rc := got
				got = nil
				mu.Unlock()
				kind := ""
				if len(rc) != expectCalls {
					kind = "prodclient.delivery_count/" + auth
				}
				for _, c := range rc {
					okAuth := authOK(auth, c)
					if c.Method != "POST" || c.Path != "/hook" || !okAuth || !strings.Contains(c.Body, `"operation":"ADD"`) {
						kind = "prodclient.request/" + auth
					}
				}
				if kind != "" {
					st.viol(kind, fmt.Sprintf("production client, auth=%s, outcomes %v, max_tries %d: the target must receive one POST per event while the webhook is active, carrying exactly the configured authorisation header", auth, sq, max), fmt.Sprintf("%d POSTs", expectCalls), rc)
				}
				w.rig.Close()
				_ = os.Remove(path)
			}
		}
	}
	// ---- two webhooks with every ordered pair of authorisation kinds, served by one client in
	// one process: both registered; or the first one deleted / deactivated before the second is
	// called. Each target must see exactly its own authorisation header, whatever was sent before.
	*job++
	if !env.Mine(*job) {
		return
	}
	kinds := []string{"bearer", "custom", "custom2", "none"}
	for _, a0 := range kinds {
		for _, a1 := range kinds {
			for _, shape := range []string{"both", "first-deleted", "first-deactivated"} {
				if rep.Expired() {
					return
				}
				urls := [2]string{srv.URL + "/hook", srv.URL + "/hook2"}
				path := core.NewStoreFile()
				w := openWorld(path, 1, client.NewWebhookTargetClient())
				m := wmodel{Max: 1}
				var hist []wop
				st := &stepper{rep: rep, max: 1, check: true, urls: urls, prodOf: client.NewWebhookTargetClient}
				do := func(o wop) {
					if o.Kind == "notify" {
						mu.Lock()
						outcome = o.Out[0]
						mu.Unlock()
					}
					hist = append(hist, o)
					st.hist = hist
					w = st.apply(w, &m, o)
				}
				want := map[string][]string{} // path -> auth kind expected per POST
				do(wop{Kind: "reg", U: 0, Auth: a0})
				switch shape {
				case "both":
					do(wop{Kind: "reg", U: 1, Auth: a1})
					do(wop{Kind: "notify", Out: [2]string{"200", "200"}})
					do(wop{Kind: "notify", Out: [2]string{"200", "200"}})
					want["/hook"] = []string{a0, a0}
					want["/hook2"] = []string{a1, a1}
				case "first-deleted":
					do(wop{Kind: "notify", Out: [2]string{"200", "200"}})
					do(wop{Kind: "del", U: 0})
					do(wop{Kind: "reg", U: 1, Auth: a1})
					do(wop{Kind: "notify", Out: [2]string{"200", "200"}})
					want["/hook"] = []string{a0}
					want["/hook2"] = []string{a1}
				case "first-deactivated":
					do(wop{Kind: "notify", Out: [2]string{"500", "500"}}) // max_tries 1: deactivates the first
					do(wop{Kind: "reg", U: 1, Auth: a1})
					do(wop{Kind: "notify", Out: [2]string{"200", "200"}})
					want["/hook"] = []string{a0}
					want["/hook2"] = []string{a1}
				}
				rep.Executions++
				rep.Evaluations++
				rep.DistinctNontrivial++
				rep.Outcome("production-client:two-webhooks")
				mu.Lock()
				rc := got
				got = nil
				mu.Unlock()
				seenN := map[string]int{}
				kind := ""
				for _, c := range rc {
					exp := want[c.Path]
					k := seenN[c.Path]
					seenN[c.Path]++
					if k >= len(exp) {
						kind = "prodclient.delivery_count/two_webhooks"
						continue
					}
					if c.Method != "POST" || !authOK(exp[k], c) || !strings.Contains(c.Body, `"operation":"ADD"`) {
						kind = "prodclient.request/two_webhooks"
					}
				}
				for pth, exp := range want {
					if seenN[pth] != len(exp) && kind == "" {
						kind = "prodclient.delivery_count/two_webhooks"
					}
				}
				if kind != "" {
					st.viol(kind, fmt.Sprintf("production client, two webhooks (%s then %s, %s): every target must receive one POST per event while active, carrying exactly its own authorisation header", a0, a1, shape), want, rc)
				}
				w.rig.Close()
				_ = os.Remove(path)
			}
		}
	}
}

// replayC12 re-executes one recorded operation sequence (scripted client) and checks every step.
func replayC12(env core.Env, rep *core.Report) {
	var rf struct {
		Replay struct {
			Max int   `json:"max_tries"`
			Ops []wop `json:"ops"`
		} `json:"replay"`
	}
	core.ReadJSON(env.Replay, &rf)
	rep.Bound = "replay of " + env.Replay
	path := core.NewStoreFile()
	w := openWorld(path, rf.Replay.Max, nil)
	m := wmodel{Max: rf.Replay.Max}
	for i, o := range rf.Replay.Ops {
		st := &stepper{rep: rep, hist: rf.Replay.Ops[:i+1], max: rf.Replay.Max, check: true, urls: hookURLs}
		w = st.apply(w, &m, o)
		rep.Transitions++
	}
	rep.Executions, rep.Evaluations, rep.States = 1, 1, 1
	w.rig.Close()
}
