package apiwalk

import (
	"context"
	"fmt"
	"github.com/bitcoin-sv/block-headers-service/config"
	"sort"
	"strings"

	"github.com/bitcoin-sv/block-headers-service/verifh/core"
	"github.com/centrifugal/centrifuge"
)

func init() { props["C10"] = runC10 }

// memTransport is an in-memory unidirectional centrifuge transport: the connect command is
// processed synchronously by the node's real OnConnecting handler.
type memTransport struct{ closed *centrifuge.Disconnect }

func (t *memTransport) Name() string                      { return "verif-mem" }
func (t *memTransport) Protocol() centrifuge.ProtocolType { return centrifuge.ProtocolTypeJSON }
func (t *memTransport) ProtocolVersion() centrifuge.ProtocolVersion {
	return centrifuge.ProtocolVersion2
}
func (t *memTransport) Unidirectional() bool      { return true }
func (t *memTransport) Emulation() bool           { return false }
func (t *memTransport) DisabledPushFlags() uint64 { return 0 }
func (t *memTransport) PingPongConfig() centrifuge.PingPongConfig {
	return centrifuge.PingPongConfig{PingInterval: -1}
}
func (t *memTransport) Write([]byte) error        { return nil }
func (t *memTransport) WriteMany(...[]byte) error { return nil }
func (t *memTransport) Close(d centrifuge.Disconnect) error {
	t.closed = &d
	return nil
}

// wsConnect runs the websocket connect handshake for a token; returns "ok" or the refusal.
func wsConnect(api *core.API, token string) string {
	node, ok := api.WS.Publisher().(*centrifuge.Node)
	if !ok {
		return "harness: publisher is not a centrifuge node"
	}
	tr := &memTransport{}
	cl, closeFn, err := centrifuge.NewClient(context.Background(), node, tr)
	if err != nil {
		return "harness: " + err.Error()
	}
	defer func() { _ = closeFn() }()
	if err := cl.ConnectNoErrorToDisconnect(centrifuge.ConnectRequest{Token: token}); err != nil {
		return "refused: " + err.Error()
	}
	return "ok"
}

type top struct {
	Kind string `json:"op"` // create | revoke | restart
	Arg  string `json:"arg,omitempty"`
}

type tworld struct {
	rig    *core.Rig
	api    *core.API
	issued []string // in creation order
	live   map[string]bool
}

func (w *tworld) close() {
	if w.api != nil && w.api.WS != nil {
		_ = w.api.WS.Shutdown()
	}
	w.rig.CloseKeep()
}

// adminTokens: the configured admin token is free-form text; one shape has the length and
// alphabet of issued tokens
var adminTokens = []string{"", "Adm1nT0kenOfTheSameLengthAs1ssued"[:32], "aLongerAdm1nSecretThanAnyIssuedT0ken-w1th-45-chars"[:45]}

func openT(path string, adminToken string) *tworld {
	w := &tworld{live: map[string]bool{}}
	w.rig = core.OpenRig(path, core.RigOpts{Cfg: func(c *config.AppConfig) {
		if adminToken != "" {
			c.HTTP.AuthToken = adminToken
		}
	}})
	w.api = w.rig.NewAPI(core.APIOpts{Websocket: true, Start: true})
	return w
}

func runC10(env core.Env, rep *core.Report) {
	rep.Rule = "one evaluation = one operation (create / revoke(issued|unknown|admin|already revoked) / restart) applied in one reachable state of the token set, after which every known token, an unknown one and the admin token are probed on an HTTP route and on the websocket connect handshake; non-trivial = the history contains a revocation or a restart; distinct by (history of operations up to token renaming)"
	depth := 5
	if env.Tier == "thorough" {
		depth = 7
	}
	maxIssued := 3
	rep.Bound = fmt.Sprintf("[all operation sequences up to depth %d with at most %d issued tokens; revoke targets: every issued token (live or revoked), an unknown token, the admin token; admin token in turn the default one, one with the length and alphabet of issued tokens, and one of 45 characters; prefixes of valid credentials are probed as unknown]", depth, maxIssued)
	// Enumerate operation sequences symbolically (token k = k-th issued).
	type hist []top
	var all []hist
	var rec func(h hist, issued int, d int)
	rec = func(h hist, issued, d int) {
		all = append(all, append(hist{}, h...))
		if d == depth {
			return
		}
		if issued < maxIssued {
			rec(append(h, top{Kind: "create"}), issued+1, d+1)
		}
		for k := 0; k < issued; k++ {
			rec(append(h, top{Kind: "revoke", Arg: fmt.Sprint("#", k)}), issued, d+1)
		}
		rec(append(h, top{Kind: "revoke", Arg: "unknown"}), issued, d+1)
		rec(append(h, top{Kind: "revoke", Arg: "admin"}), issued, d+1)
		if len(h) == 0 || h[len(h)-1].Kind != "restart" {
			rec(append(h, top{Kind: "restart"}), issued, d+1)
		}
	}
	rec(nil, 0, 0)
	// every maximal sequence covers its prefixes: run only sequences that are not a proper prefix
	// of another one, checking after every step
	isPrefix := map[string]bool{}
	key := func(h hist) string { return fmt.Sprint(h) }
	for _, h := range all {
		for k := 0; k < len(h); k++ {
			isPrefix[key(h[:k])] = true
		}
	}
	seenState := map[string]bool{}
	idx := 0
	for _, h := range all {
		if isPrefix[key(h)] {
			continue
		}
		idx++
		if !env.Mine(idx) || rep.Expired() {
			continue
		}
		runTokenHistory(rep, h, seenState, adminTokens[idx%len(adminTokens)])
	}
	rep.Extra["maximal_sequences_total"] = idx
}

func runTokenHistory(rep *core.Report, h []top, seenState map[string]bool, adminToken string) {
	path := core.NewStoreFile()
	w := openT(path, adminToken)
	defer func() { w.close(); w.rig.Close() }()
	admin := w.rig.Cfg.HTTP.AuthToken
	viol := func(step int, kind, what string, exp, obs any) {
		rep.Violate(core.Violation{Kind: kind, What: what, Replay: map[string]any{"engine": "apiwalk", "property": "C10", "ops": h[:step+1]}, Expected: exp, Observed: obs})
	}
	nontrivial := false
	for i, o := range h {
		switch o.Kind {
		case "create":
			r := w.api.Do("POST", "/api/v1/access", nil, adminHdr(w.rig))
			var t struct {
				Token   string `json:"token"`
				IsAdmin bool   `json:"isAdmin"`
			}
			if r.Code != 200 || !r.JSON(&t) || t.Token == "" {
				viol(i, "create.failed", "POST /access with the admin token", 200, fmt.Sprintf("%d %s", r.Code, trunc(r.Body)))
				return
			}
			for _, old := range w.issued {
				if old == t.Token {
					viol(i, "create.duplicate", "an issued token equals an earlier one", nil, t.Token)
				}
			}
			if t.Token == admin || t.IsAdmin {
				viol(i, "create.admin", "an issued token is the admin token / flagged admin", nil, t)
			}
			w.issued = append(w.issued, t.Token)
			w.live[t.Token] = true
		case "revoke":
			nontrivial = true
			target := "zzUnknownTokenzzUnknownTokenzz12"
			switch {
			case o.Arg == "admin":
				target = admin
			case strings.HasPrefix(o.Arg, "#"):
				var k int
				fmt.Sscan(strings.TrimPrefix(o.Arg, "#"), &k)
				target = w.issued[k]
			}
			r := w.api.Do("DELETE", "/api/v1/access/"+target, nil, adminHdr(w.rig))
			if r.Code >= 500 {
				viol(i, "revoke.5xx", "DELETE /access/{token}", "<500", fmt.Sprintf("%d %s", r.Code, trunc(r.Body)))
			}
			delete(w.live, target)
		case "restart":
			nontrivial = true
			issued, live := w.issued, w.live
			w.close()
			w = openT(path, adminToken)
			w.issued, w.live = issued, live
		}
		rep.Transitions++
		rep.Executions++
		rep.Evaluations++
		if nontrivial {
			rep.DistinctNontrivial++
		}
		rep.Outcome("op:" + o.Kind)
		// canonical state: which issued tokens (by ordinal) are live
		var liveOrd []string
		for k, t := range w.issued {
			if w.live[t] {
				liveOrd = append(liveOrd, fmt.Sprint(k))
			}
		}
		sort.Strings(liveOrd)
		sk := fmt.Sprintf("%d issued, live %v", len(w.issued), liveOrd)
		if !seenState[sk] {
			seenState[sk] = true
			rep.States++
		}
		// probe everything
		probe := func(tok string, wantValid, wantAdmin bool, label string) {
			r := w.api.Do("GET", "/api/v1/access", nil, map[string]string{"Authorization": "Bearer " + tok})
			var t struct {
				Token   string `json:"token"`
				IsAdmin bool   `json:"isAdmin"`
			}
			r2 := w.api.Do("GET", "/api/v1/chain/tip/longest", nil, map[string]string{"Authorization": "Bearer " + tok})
			ws := wsConnect(w.api, tok)
			if wantValid {
				if r.Code != 200 || !r.JSON(&t) || t.IsAdmin != wantAdmin || r2.Code != 200 {
					viol(i, "auth.http_refused/"+label, "a "+label+" token must authenticate on the HTTP API", fmt.Sprintf("200 isAdmin=%v", wantAdmin), fmt.Sprintf("%d %s / %d", r.Code, trunc(r.Body), r2.Code))
				}
				if ws != "ok" {
					viol(i, "auth.ws_refused/"+label, "a "+label+" token must pass the websocket connect handshake", "ok", ws)
				}
			} else {
				if r.Code != 401 || r2.Code != 401 {
					viol(i, "auth.http_accepted/"+label, "a "+label+" token must not authenticate on the HTTP API", 401, fmt.Sprintf("%d / %d", r.Code, r2.Code))
				}
				if !strings.Contains(ws, "invalid token") {
					viol(i, "auth.ws_accepted/"+label, "a "+label+" token must be refused by the websocket connect handshake", "invalid token", ws)
				}
			}
		}
		for _, t := range w.issued {
			if w.live[t] {
				probe(t, true, false, "live")
			} else {
				probe(t, false, false, "revoked")
			}
		}
		probe("neverIssuedneverIssuedneverIssu3d", false, false, "unknown")
		probe("%", false, false, "unknown(sql wildcard)")
		probe(strings.Repeat("_", 32), false, false, "unknown(sql wildcard)")
		if len(w.issued) > 0 {
			probe(w.issued[0][:5]+"%", false, false, "unknown(prefix wildcard)")
			if sc := swapCase(w.issued[0]); sc != w.issued[0] {
				probe(sc, false, false, "unknown(case variant)")
			}
		}
		probe(admin, true, true, "admin")
		// strings that only share a prefix with a valid credential
		if len(admin) > 32 {
			probe(admin[:32], false, false, "unknown(first 32 characters of the admin token)")
			probe(admin[:32]+"-another-tail", false, false, "unknown(admin token prefix, other tail)")
		}
		for _, t := range w.issued {
			if w.live[t] {
				probe(t+"-suffix", false, false, "unknown(live token with a suffix)")
				break
			}
		}
		rep.Sample(func() any { return map[string]any{"ops": h[:i+1], "state": sk} })
	}
}
