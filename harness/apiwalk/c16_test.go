package apiwalk

import (
	"bytes"
	"encoding/json"
	"fmt"
	"io"
	"net/url"
	"strings"

	"github.com/bitcoin-sv/block-headers-service/config"
	"github.com/bitcoin-sv/block-headers-service/verifh/core"
)

func init() { props["C16"] = runC16 }

type req struct {
	Method string `json:"method"`
	Target string `json:"target"`
	Body   string `json:"body,omitempty"`
	CT     string `json:"content_type,omitempty"`
	Class  string `json:"class"`
}

func clip(s string) string {
	if len(s) > 120 {
		return fmt.Sprintf("%s...(%d bytes)", s[:60], len(s))
	}
	return s
}

// store shapes: blueprint + arrival order
type shape struct {
	name string
	b    core.Blueprint
	seq  []int
}

func shapes() []shape {
	L, H := core.BitsLight, core.BitsHeavy
	return []shape{
		{"linear", core.Blueprint{Nodes: []core.BNode{{}, {0, L}, {1, L}, {2, L}}}, []int{1, 2, 3}},
		{"fork+stale", core.Blueprint{Nodes: []core.BNode{{}, {0, L}, {1, L}, {1, L}, {3, H}}}, []int{1, 2, 3, 4}},
		{"fork+stale+orphans", core.Blueprint{Nodes: []core.BNode{{}, {0, L}, {1, L}, {0, L}, {-1, L}, {4, L}}}, []int{1, 2, 3, 4, 5}},
	}
}

func runC16(env core.Env, rep *core.Report) {
	rep.Rule = "one evaluation = one HTTP request (route x parameter/body alphabet) on one store shape under one auth mode; non-trivial = at least one parameter or the body is not a well-formed value of its type (or names a stale/orphan/genesis/unknown header); distinct by (store, auth mode, method, target, body)"
	rep.Bound = "[complete product per route of the path/query/body alphabets (8 hash forms, 11 integer forms, 13-15 body forms) on 3 store shapes x {auth off, auth on with the admin token, auth on with an issued token}]"
	job := 0
	all := shapes()
	if env.Tier == "thorough" {
		// every blueprint of 3 headers over two difficulty values (192 labelled forests), in arrival
		// order 1,2,3 and in reverse (which turns children into orphans)
		rep.Bound += " [thorough: additionally all 192 blueprints N=3,|W|=2 x arrival orders {1 2 3, 3 2 1}, and every single-character deletion / substitution of one well-formed body per POST route]"
		core.EnumBlueprints(3, core.WAlphabet(2), func(idx int, b core.Blueprint) {
			all = append(all, shape{fmt.Sprintf("blueprint %s order 123", b), b, []int{1, 2, 3}}, shape{fmt.Sprintf("blueprint %s order 321", b), b, []int{3, 2, 1}})
		})
	}
	for si, sh := range all {
		for _, auth := range []string{"off", "admin", "user"} {
			if auth == "user" && si >= 3 {
				continue // the issued-token mode runs on the three hand-made shapes
			}
			job++
			if !env.Mine(job) || rep.Expired() {
				continue
			}
			c16store(rep, sh, auth, env.Tier == "thorough" && si < 3)
		}
	}
}

func c16store(rep *core.Report, sh shape, authMode string, mutateBodies bool) {
	auth := authMode != "off"
	u := core.Fabricate(sh.b, 0)
	path := core.NewStoreFile()
	rig := core.OpenRig(path, core.RigOpts{Cfg: func(c *config.AppConfig) { c.HTTP.UseAuth = auth }})
	defer rig.Close()
	for _, n := range sh.seq {
		core.SafeAdd(rig.Svc.Chains, u.Raw[n].Source())
	}
	t := core.ModelOf(u, 0, sh.seq)
	labels := t.Labels()
	api := rig.NewAPI(core.APIOpts{})
	rep.States++
	pick := func(label string) *core.MHeader {
		var last *core.MHeader
		for _, m := range t.Order {
			if labels[m.Hash] == label && m.Node != 0 {
				last = m
			}
		}
		if last == nil {
			return t.Order[len(t.Order)-1]
		}
		return last
	}
	longest, stale, orphan, genesis := pick(core.LLongest), pick(core.LStale), pick(core.LOrphan), t.Order[0]
	unknown := "00000000000000000000000000000000000000000000000000000000deadbeef"
	big := strings.Repeat("ab", 5000)
	hashes := []string{longest.Hash, stale.Hash, orphan.Hash, genesis.Hash, unknown, unknown[:63], "zz" + unknown[2:], big}
	ints := []string{"<absent>", "", "0", "1", "-1", "abc", "1e3", " 1", "2147483647", "2147483648", "9223372036854775808"}
	wellInts := map[string]bool{"0": true, "1": true, "<absent>": true, "2147483647": true}
	var reqs []req
	add := func(m, target, body, ct, class string) {
		reqs = append(reqs, req{m, target, body, ct, class})
	}
	q := func(pairs ...string) string {
		v := []string{}
		for i := 0; i+1 < len(pairs); i += 2 {
			if pairs[i+1] == "<absent>" {
				continue
			}
			v = append(v, pairs[i]+"="+url.QueryEscape(pairs[i+1]))
		}
		if len(v) == 0 {
			return ""
		}
		return "?" + strings.Join(v, "&")
	}
	for i, h := range hashes {
		cls := "wellformed"
		if i >= 1 {
			cls = "odd"
		}
		add("GET", "/api/v1/chain/header/"+h, "", "", cls)
		add("GET", "/api/v1/chain/header/state/"+h, "", "", cls)
		for _, h2 := range hashes {
			add("GET", "/api/v1/chain/header/"+h+"/"+h2+"/ancestor", "", "", "odd")
		}
		add("DELETE", "/api/v1/access/"+h, "", "", "odd")
		// the same path parameters with a query string behind them (no route reads one there)
		add("GET", "/api/v1/chain/header/"+h+"?x=1&verbose=", "", "", "odd")
		add("GET", "/api/v1/chain/header/state/"+h+"?"+strings.Repeat("q", 2000)+"=1", "", "", "odd")
		add("DELETE", "/api/v1/access/"+h+"?x=1", "", "", "odd")
	}
	add("GET", "/api/v1/nosuch/"+big+"?x=1", "", "", "odd")
	for _, a := range ints {
		for _, b := range ints {
			cls := "odd"
			if wellInts[a] && wellInts[b] && a != "<absent>" {
				cls = "wellformed"
			}
			add("GET", "/api/v1/chain/header/byHeight"+q("height", a, "count", b), "", "", cls)
		}
		for _, k := range []string{"<absent>", "", longest.Raw.Merkle.Hex(), stale.Raw.Merkle.Hex(), orphan.Raw.Merkle.Hex(), genesis.Raw.Merkle.Hex(), unknown, big} {
			add("GET", "/api/v1/chain/merkleroot"+q("batchSize", a, "lastEvaluatedKey", k), "", "", "odd")
		}
	}
	j := func(v any) string { b, _ := json.Marshal(v); return string(b) }
	many := make([]string, 5000)
	for i := range many {
		many[i] = longest.Hash
	}
	genericBodies := []string{"", "null", "[]", "{}", "[1]", `["x"]`, `[{"merkleRoot":1}]`, `[{"merkleRoot":"x","blockHeight":"y"}]`, `["` + longest.Hash[:30], "not json at all", `"just a string"`, "123", `[null]`, `{"url":5}`, `{"url":"http://h.example/x","requiredAuth":"bearer"}`, `{"url":"http://h.example/x","requiredAuth":{"type":7}}`}
	caBodies := []string{j([]string{longest.Hash}), j([]string{longest.Hash, stale.Hash}), j([]string{genesis.Hash}), j([]string{longest.Hash, genesis.Hash}), j([]string{orphan.Hash}), j([]string{orphan.Hash, longest.Hash}), j([]string{stale.Hash, orphan.Hash, longest.Hash}), j([]string{unknown}), j([]string{longest.Hash, longest.Hash}), j(many)}
	type mr struct {
		MerkleRoot  any `json:"merkleRoot"`
		BlockHeight any `json:"blockHeight"`
	}
	manyMR := make([]mr, 5000)
	for i := range manyMR {
		manyMR[i] = mr{longest.Raw.Merkle.Hex(), i}
	}
	// lists far longer than any limit a storage driver has on bound parameters (SQLite: 32766)
	hugeN := 33000
	hugeCA := make([]string, hugeN)
	hugeMR := make([]mr, hugeN)
	for i := range hugeCA {
		hugeCA[i] = longest.Hash
		hugeMR[i] = mr{longest.Raw.Merkle.Hex(), longest.Height}
	}
	if sh.name == "fork+stale" && authMode == "off" {
		caBodies = append(caBodies, j(hugeCA))
	}
	vfBodies := []string{j([]mr{{longest.Raw.Merkle.Hex(), longest.Height}}), j([]mr{{stale.Raw.Merkle.Hex(), stale.Height}, {orphan.Raw.Merkle.Hex(), 1}}), j([]mr{{"", 0}}), j([]mr{{longest.Raw.Merkle.Hex(), -1}}), j([]mr{{longest.Raw.Merkle.Hex(), 2147483647}}), `[{"merkleRoot":"ab","blockHeight":2147483648}]`, `[{"merkleRoot":"ab","blockHeight":1.5}]`, `[{}]`, j([]mr{{big, 1}}), j(manyMR)}
	if sh.name == "fork+stale" && authMode == "off" {
		vfBodies = append(vfBodies, j(hugeMR))
	}
	whBodies := []string{`{"url":"http://h.example/a","requiredAuth":{"type":"bearer","token":"t"}}`, `{"url":"http://h.example/a","requiredAuth":{"type":"bearer","token":"t"}}`, `{"url":"http://h.example/b"}`, `{"url":""}`, `{"requiredAuth":{"type":"bearer"}}`, `{"url":"` + big + `"}`, `{"url":"http://h.example/c","requiredAuth":{"type":"custom_header","header":"","token":""}}`}
	for _, ct := range []string{"application/json", "text/plain"} {
		for _, b := range append(append([]string{}, genericBodies...), caBodies...) {
			cls := "odd"
			add("POST", "/api/v1/chain/header/commonAncestor", b, ct, cls)
		}
		for _, b := range append(append([]string{}, genericBodies...), vfBodies...) {
			add("POST", "/api/v1/chain/merkleroot/verify", b, ct, "odd")
		}
		for _, b := range append(append([]string{}, genericBodies...), whBodies...) {
			add("POST", "/api/v1/webhook", b, ct, "odd")
		}
	}
	add("POST", "/api/v1/webhook", "url=http%3A%2F%2Fh.example%2Fform", "application/x-www-form-urlencoded", "odd")
	for _, uu := range []string{"<absent>", "", "http://h.example/a", "http://nowhere.example/", big} {
		add("GET", "/api/v1/webhook"+q("url", uu), "", "", "odd")
		add("DELETE", "/api/v1/webhook"+q("url", uu), "", "", "odd")
	}
	for _, p := range []string{"/api/v1/chain/tip", "/api/v1/chain/tip/longest", "/api/v1/network/peer", "/api/v1/network/peer/count", "/api/v1/access"} {
		add("GET", p, "", "", "wellformed")
	}
	if mutateBodies {
		for route, body := range map[string]string{"/api/v1/chain/header/commonAncestor": caBodies[1], "/api/v1/chain/merkleroot/verify": vfBodies[1], "/api/v1/webhook": whBodies[0]} {
			for i := 0; i < len(body); i++ {
				add("POST", route, body[:i]+body[i+1:], "application/json", "odd")
				for _, c := range []string{"\"", "{", "]", "0", "\x00"} {
					add("POST", route, body[:i]+c+body[i+1:], "application/json", "odd")
				}
			}
		}
	}
	add("POST", "/api/v1/access", "", "", "wellformed")
	add("POST", "/api/v1/access", "garbage", "application/json", "odd")

	hdrBase := map[string]string{}
	if auth {
		hdrBase = adminHdr(rig)
	}
	if authMode == "admin" {
		// malformed Authorization headers of every short length, on a read route and a write route
		for _, h := range []string{"x", "ab", "abc", "Basi", "Basic", "Bearer", "Bearer ", "Bearer  ", "bearer", "\x00"} {
			for _, rt := range [][2]string{{"GET", "/api/v1/chain/tip"}, {"POST", "/api/v1/access"}} {
				reqs = append(reqs, req{rt[0], rt[1], "", "", "odd:auth=" + h})
			}
		}
	}
	if authMode == "user" {
		// an issued (non-admin) token, presented on every request - also on the admin-only routes,
		// where the answer must be a structured 401
		r := api.Do("POST", "/api/v1/access", nil, adminHdr(rig))
		var tok struct {
			Token string `json:"token"`
		}
		if r.Code != 200 || !r.JSON(&tok) || tok.Token == "" {
			rep.HarnessError("cannot issue a token: " + trunc(r.Body))
			return
		}
		hdrBase = map[string]string{"Authorization": "Bearer " + tok.Token}
	}
	before := core.Digest(core.DumpHeaders(rig.DB))
	mode := map[string]string{"off": "auth-off", "admin": "auth-on(admin token)", "user": "auth-on(issued token)"}[authMode]
	for _, rq := range reqs {
		hdr := map[string]string{}
		for k, v := range hdrBase {
			hdr[k] = v
		}
		if rq.CT != "" {
			hdr["Content-Type"] = rq.CT
		}
		if strings.HasPrefix(rq.Class, "odd:auth=") {
			hdr["Authorization"] = strings.TrimPrefix(rq.Class, "odd:auth=")
		}
		var body []byte
		if rq.Method == "POST" {
			body = []byte(rq.Body)
		}
		r := api.Do(rq.Method, rq.Target, body, hdr)
		rep.Evaluations++
		rep.Executions++
		rep.Transitions++
		if rq.Class != "wellformed" {
			rep.DistinctNontrivial++
		}
		route := routeOf(rq)
		rep.Outcome(fmt.Sprintf("status:%dxx", r.Code/100))
		viol := func(kind, what string, exp, obs any) {
			rq2 := rq
			rq2.Target, rq2.Body = clip(rq.Target), clip(rq.Body)
			rep.Violate(core.Violation{Kind: kind + " " + route, What: fmt.Sprintf("[%s, %s] %s %s body=%s: %s", sh.name, mode, rq.Method, clip(rq.Target), clip(rq.Body), what),
				Replay: map[string]any{"engine": "apiwalk", "property": "C16", "store": sh.name, "auth": authMode, "request": rq2}, Expected: exp, Observed: obs})
		}
		if r.Code >= 500 {
			viol("5xx", "the server answered with a 5xx", "<500", fmt.Sprintf("%d %s", r.Code, trunc(r.Body)))
			continue
		}
		if r.Code == 404 && bytes.HasPrefix(r.Body, []byte("404 page not found")) {
			rep.Outcome("no-route (framework answer)")
			continue
		}
		if r.Code == 301 || r.Code == 307 {
			rep.Outcome("redirect (framework answer)")
			continue
		}
		one, val := oneJSON(r.Body)
		switch {
		case len(bytes.TrimSpace(r.Body)) == 0:
			if r.Code != 200 && r.Code != 204 {
				viol("empty_body", "a non-2xx answer without any document", "a JSON document", fmt.Sprintf("%d <empty>", r.Code))
			}
		case !one:
			viol("not_one_json", "the body is not exactly one JSON document", "one JSON value", fmt.Sprintf("%d %s", r.Code, trunc(r.Body)))
		case r.Code >= 400:
			obj, ok := val.(map[string]any)
			code, _ := obj["code"].(string)
			msg, _ := obj["message"].(string)
			if !ok || code == "" || msg == "" {
				viol("4xx_unstructured", "a 4xx answer must carry a code and a message", `{"code":..,"message":..}`, fmt.Sprintf("%d %s", r.Code, trunc(r.Body)))
			}
		}
		rep.Sample(func() any {
			rq2 := rq
			rq2.Target, rq2.Body = clip(rq.Target), clip(rq.Body)
			return map[string]any{"store": sh.name, "auth": mode, "request": rq2, "status": r.Code}
		})
	}
	if after := core.Digest(core.DumpHeaders(rig.DB)); after != before {
		rep.Violate(core.Violation{Kind: "store_modified", What: "requests changed the headers table", Replay: map[string]any{"store": sh.name}, Expected: before, Observed: after})
	}
	// the process is alive and still answers
	if r := api.Do("GET", "/status", nil, nil); r.Code != 200 {
		rep.Violate(core.Violation{Kind: "dead", What: "the engine no longer answers /status", Replay: map[string]any{"store": sh.name}})
	}
}

func routeOf(rq req) string {
	p := rq.Target
	if i := strings.Index(p, "?"); i >= 0 {
		p = p[:i]
	}
	p = strings.TrimPrefix(p, "/api/v1")
	switch {
	case strings.HasSuffix(p, "/ancestor"):
		p = "/chain/header/:hash/:ancestorHash/ancestor"
	case strings.HasPrefix(p, "/chain/header/state/"):
		p = "/chain/header/state/:hash"
	case strings.HasPrefix(p, "/access/"):
		p = "/access/:token"
	case strings.HasPrefix(p, "/chain/header/") && p != "/chain/header/byHeight" && p != "/chain/header/commonAncestor":
		p = "/chain/header/:hash"
	}
	return rq.Method + " " + p
}

func oneJSON(b []byte) (bool, any) {
	dec := json.NewDecoder(bytes.NewReader(b))
	var v any
	if err := dec.Decode(&v); err != nil {
		return false, nil
	}
	var extra any
	return dec.Decode(&extra) == io.EOF, v
}
