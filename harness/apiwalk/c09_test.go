package apiwalk

import (
	"encoding/json"
	"fmt"
	"net/url"
	"regexp"
	"strings"

	"github.com/bitcoin-sv/block-headers-service/config"
	"github.com/bitcoin-sv/block-headers-service/metrics"
	"github.com/bitcoin-sv/block-headers-service/verifh/core"
)

func init() { props["C09"] = runC09 }

type credClass struct {
	Name   string
	Header func(env *c09env) (string, bool) // value, present
	Valid  bool
	Admin  bool
}

type c09env struct {
	rig     *core.Rig
	api     *core.API
	user    string // issued, live
	revoked string // issued, revoked
	hashes  []string
}

var credClasses = []credClass{
	{Name: "none", Header: func(*c09env) (string, bool) { return "", false }},
	{Name: "empty", Header: func(*c09env) (string, bool) { return "", true }},
	{Name: "wrong_scheme", Header: func(e *c09env) (string, bool) { return "Basic " + e.user, true }},
	{Name: "scheme_only", Header: func(*c09env) (string, bool) { return "Bearer", true }},
	{Name: "extra_parts", Header: func(e *c09env) (string, bool) { return "Bearer " + e.user + " x", true }},
	{Name: "lowercase_scheme", Header: func(e *c09env) (string, bool) { return "bearer " + e.user, true }},
	{Name: "unknown_token", Header: func(*c09env) (string, bool) { return "Bearer notAtokenNotAtokenNotAtoken123456", true }},
	{Name: "revoked_token", Header: func(e *c09env) (string, bool) { return "Bearer " + e.revoked, true }},
	{Name: "sql_wildcard_percent", Header: func(*c09env) (string, bool) { return "Bearer %", true }},
	{Name: "sql_wildcard_underscores", Header: func(e *c09env) (string, bool) { return "Bearer " + strings.Repeat("_", len(e.user)), true }},
	{Name: "token_prefix_wildcard", Header: func(e *c09env) (string, bool) { return "Bearer " + e.user[:4] + "%", true }},
	{Name: "token_other_case", Header: func(e *c09env) (string, bool) { return "Bearer " + swapCase(e.user), true }},
	{Name: "admin_token_prefix", Header: func(e *c09env) (string, bool) {
		// (differs from the admin token whenever that is longer than 32 characters; otherwise it is
		// the admin token with a tail, unknown all the same)
		a := e.rig.Cfg.HTTP.AuthToken
		if len(a) > 32 {
			return "Bearer " + a[:32], true
		}
		return "Bearer " + a + "-tail", true
	}},
	{Name: "user_token_with_suffix", Header: func(e *c09env) (string, bool) { return "Bearer " + e.user + "-suffix", true }},
	{Name: "valid_user_token", Valid: true, Header: func(e *c09env) (string, bool) { return "Bearer " + e.user, true }},
	{Name: "admin_token", Valid: true, Admin: true, Header: func(e *c09env) (string, bool) { return "Bearer " + e.rig.Cfg.HTTP.AuthToken, true }},
}

var allowedRoot = []*regexp.Regexp{
	regexp.MustCompile(`^/status$`),
	regexp.MustCompile(`^/swagger/\*any$`),
	regexp.MustCompile(`^/connection/websocket$`),
}

func swapCase(s string) string {
	b := []byte(s)
	for i, c := range b {
		switch {
		case c >= 'a' && c <= 'z':
			b[i] = c - 32
		case c >= 'A' && c <= 'Z':
			b[i] = c + 32
		}
	}
	if string(b) == s {
		return s + "x"
	}
	return string(b)
}

// fill replaces route parameters by values that would reach handler logic.
func fill(path string, e *c09env) string {
	p := strings.ReplaceAll(path, ":ancestorHash", e.hashes[0])
	p = strings.ReplaceAll(p, ":hash", e.hashes[1])
	p = strings.ReplaceAll(p, ":token", e.user)
	switch {
	case strings.HasSuffix(p, "/byHeight"):
		p += "?height=0&count=2"
	case strings.HasSuffix(p, "/webhook"):
		p += "?url=" + url.QueryEscape("http://hook.example/x")
	}
	return p
}

func bodyFor(method, path string, e *c09env) []byte {
	if method != "POST" {
		return nil
	}
	switch {
	case strings.HasSuffix(path, "/commonAncestor"):
		b, _ := json.Marshal([]string{e.hashes[1]})
		return b
	case strings.HasSuffix(path, "/verify"):
		return []byte(`[{"merkleRoot":"4a5e1e4baab89f3a32518a88c31bc87f618f76673e2cc77ab2127b7afdeda33b","blockHeight":0}]`)
	case strings.HasSuffix(path, "/webhook"):
		return []byte(`{"url":"http://hook.example/new","requiredAuth":{"type":"bearer","token":"t"}}`)
	}
	return nil
}

func runC09(env core.Env, rep *core.Report) {
	rep.Rule = "one evaluation = one request (route from Engine.Routes() x credential class) under one configuration (use_auth x profiling x metrics); non-trivial = the credential is malformed, unknown, revoked or insufficient for the route; distinct by (configuration, method, route, class)"
	rep.Bound = "[complete product: every registered route x 16 credential classes x use_auth{on,off} x debug_profiling{on,off} x metrics{off,on}; finite, enumerated completely]"
	job := 0
	for _, metricsOn := range []bool{false, true} {
		if metricsOn {
			metrics.EnableMetrics() // cannot be switched off again in one process: run the off half first
		}
		for _, useAuth := range []bool{true, false} {
			for _, prof := range []bool{true, false} {
				job++
				if env.ShardN > 1 && job%env.ShardN != env.ShardI {
					continue
				}
				// (the admin token alternates between the default and one shaped like an issued token)
				c09config(rep, useAuth, prof, metricsOn, adminTokens[job%len(adminTokens)])
			}
		}
	}
}

func c09config(rep *core.Report, useAuth, prof, metricsOn bool, adminToken string) {
	cfgName := fmt.Sprintf("use_auth=%v profiling=%v metrics=%v", useAuth, prof, metricsOn)
	viol := func(kind, what string, exp, obs any) {
		rep.Violate(core.Violation{Kind: kind, What: cfgName + ": " + what, Replay: map[string]any{"engine": "apiwalk", "property": "C09", "config": cfgName, "request": what}, Expected: exp, Observed: obs})
	}
	path := core.NewStoreFile()
	rig := core.OpenRig(path, core.RigOpts{Trace: true, Cfg: func(c *config.AppConfig) {
		c.HTTP.UseAuth = useAuth
		if adminToken != "" {
			c.HTTP.AuthToken = adminToken
		}
		c.HTTP.ProfilingEndpointsEnabled = prof
		c.Metrics.Enabled = metricsOn
	}})
	defer rig.Close()
	u := core.Fabricate(core.Blueprint{Nodes: []core.BNode{{}, {Parent: 0, Bits: core.BitsLight}, {Parent: 1, Bits: core.BitsLight}}}, 0)
	core.SafeAdd(rig.Svc.Chains, u.Raw[1].Source())
	core.SafeAdd(rig.Svc.Chains, u.Raw[2].Source())
	api := rig.NewAPI(core.APIOpts{Websocket: true})
	e := &c09env{rig: rig, api: api, hashes: []string{u.H[1].Hex(), u.H[2].Hex()}}
	// a real create/revoke history on the SQL token repository
	mk := func() string {
		r := api.Do("POST", "/api/v1/access", nil, adminHdr(rig))
		var t struct{ Token string }
		if r.Code != 200 || !r.JSON(&t) || t.Token == "" {
			// the configured admin token must be accepted on the admin routes, whatever it looks like
			viol("auth.admin_token_rejected", "POST /access with the configured admin token", 200, fmt.Sprint(r.Code, " ", trunc(r.Body)))
		}
		return t.Token
	}
	e.user, e.revoked = mk(), mk()
	if e.user == "" || e.revoked == "" {
		return
	}
	for _, tok := range []string{e.user, e.revoked} {
		if r := api.Do("GET", "/api/v1/chain/tip/longest", nil, map[string]string{"Authorization": "Bearer " + tok}); r.Code != 200 {
			rep.HarnessError("a fresh token does not authenticate: " + fmt.Sprint(r.Code))
		}
	}
	if r := api.Do("DELETE", "/api/v1/access/"+e.revoked, nil, adminHdr(rig)); r.Code != 200 {
		rep.HarnessError("cannot revoke token")
	}
	rep.States++
	digest := func() string {
		return core.Digest(core.DumpHeaders(rig.DB)) + "|" + strings.Join(core.DumpTable(rig.DB, "tokens"), ";") + "|" + strings.Join(core.DumpTable(rig.DB, "webhooks"), ";")
	}
	routes := api.Engine.Routes()
	nAPI := 0
	for _, rt := range routes {
		if !strings.HasPrefix(rt.Path, "/api/v1") {
			ok := false
			for _, re := range allowedRoot {
				if re.MatchString(rt.Path) {
					ok = true
				}
			}
			if metricsOn && rt.Path == "/metrics" {
				ok = true
			}
			if prof && strings.HasPrefix(rt.Path, "/pprof/debug/") {
				ok = true
			}
			rep.Evaluations++
			rep.Outcome("root-route")
			if !ok {
				viol("route.outside_api", fmt.Sprintf("%s %s is registered outside the authenticated prefix and is not status/docs/metrics/profiling/websocket (or that feature is disabled)", rt.Method, rt.Path), "under /api/v1", rt.Path)
			}
			continue
		}
		nAPI++
		for _, cc := range credClasses {
			target := fill(rt.Path, e)
			hdr := map[string]string{"Content-Type": "application/json"}
			if v, present := cc.Header(e); present {
				hdr["Authorization"] = v
			}
			adminOnly := strings.HasSuffix(rt.Path, "/access") && rt.Method == "POST" || strings.Contains(rt.Path, "/access/") && rt.Method == "DELETE"
			mustReject := useAuth && (!cc.Valid || (adminOnly && !cc.Admin))
			before := ""
			if mustReject {
				before = digest()
			}
			core.TraceReset()
			r := api.Do(rt.Method, target, bodyFor(rt.Method, rt.Path, e), hdr)
			stmts := core.TraceTake()
			rep.Evaluations++
			rep.Executions++
			rep.Transitions++
			if !cc.Valid || (adminOnly && !cc.Admin) {
				rep.DistinctNontrivial++
			}
			desc := fmt.Sprintf("%s %s [%s]", rt.Method, rt.Path, cc.Name)
			if mustReject {
				rep.Outcome("rejected")
				var ej errJSON
				if r.Code != 401 || !r.JSON(&ej) || ej.Code == "" || ej.Message == "" {
					viol("auth.not_rejected/"+cc.Name, desc+" must answer 401 with a structured error", 401, fmt.Sprintf("%d %s", r.Code, trunc(r.Body)))
				}
				for _, q := range stmts {
					lq := strings.ToLower(q)
					if !(strings.HasPrefix(lq, "select") && strings.Contains(lq, "from tokens")) {
						viol("auth.handler_ran/"+cc.Name, desc+" was rejected, yet storage was accessed beyond the token lookup", "only the token lookup", q)
					}
				}
				if after := digest(); after != before {
					viol("auth.state_changed/"+cc.Name, desc+" was rejected, yet stored state changed", before, after)
				}
			} else {
				rep.Outcome("admitted")
				if r.Code == 401 {
					viol("auth.wrongly_rejected/"+cc.Name, desc+" must be reachable", "not 401", fmt.Sprintf("%d %s", r.Code, trunc(r.Body)))
				}
				// an admitted request may legitimately change state (token created/revoked, webhook
				// registered); restore the fixtures the later requests rely on
				if rt.Method == "DELETE" && strings.Contains(rt.Path, "/access/") {
					e.user = mk()
				}
			}
			rep.Sample(func() any {
				return map[string]any{"config": cfgName, "request": desc, "status": r.Code, "sql_statements": len(stmts)}
			})
		}
	}
	if nAPI < 15 {
		rep.HarnessError(fmt.Sprintf("only %d API routes found in the routing table", nAPI))
	}
	rep.Extra["api_routes"] = nAPI
	rep.Extra["routes_total"] = len(routes)
}
