package netwalk

import (
	"encoding/json"
	"errors"
	"fmt"
	"net"
	"sort"
	"strings"
	"sync"
	"testing"
	"testing/synctest"
	"time"

	"github.com/bitcoin-sv/block-headers-service/transports/p2p"
	"github.com/bitcoin-sv/block-headers-service/transports/p2p/connmgr"
	"github.com/bitcoin-sv/block-headers-service/verifh/core"
	"github.com/rs/zerolog"
)

// ---- (a) peer admission: BFS over {add(kind, host), done(i), ban(i), tick} against a counting model ----

type bookEv struct {
	Kind string `json:"kind"` // add-inbound | add-outbound | add-persistent | done | ban | tick-half | tick-full
	Host string `json:"host,omitempty"`
	Idx  int    `json:"idx,omitempty"`
}

func (e bookEv) String() string {
	switch {
	case strings.HasPrefix(e.Kind, "add"):
		return e.Kind + "(" + e.Host + ")"
	case e.Kind == "done" || e.Kind == "ban":
		return fmt.Sprintf("%s(%d)", e.Kind, e.Idx)
	}
	return e.Kind
}

type mPeer struct {
	Kind, Host string
	In         bool // admitted and not yet done
}

const banDur = 10 * time.Minute

type bookResult struct {
	Key      string
	Problems []string
	Peers    []mPeer
}

// runBook replays the events on a fresh real peerState inside a bubble and checks every step.
func runBook(t *testing.T, evs []bookEv) (res bookResult) {
	synctest.Test(t, func(*testing.T) {
		total, perIP := p2p.VerifLimits()
		b := p2p.VerifNewBook(banDur, core.Quiet())
		var peers []mPeer
		banned := map[string]time.Time{}
		bad := func(f string, a ...any) { res.Problems = append(res.Problems, fmt.Sprintf(f, a...)) }
		for step, e := range evs {
			switch {
			case strings.HasPrefix(e.Kind, "add-"):
				kind := strings.TrimPrefix(e.Kind, "add-")
				// the model: what the statement allows
				nHost, nAll := 0, 0
				for _, p := range peers {
					if p.In {
						nAll++
						if p.Host == e.Host {
							nHost++
						}
					}
				}
				until, isBanned := banned[e.Host]
				stillBanned := isBanned && time.Now().Before(until)
				idx, admitted := b.Add(kind, e.Host)
				if idx != len(peers) {
					bad("harness: index mismatch")
				}
				peers = append(peers, mPeer{Kind: kind, Host: e.Host, In: admitted})
				switch {
				case stillBanned && admitted:
					bad("step %d %s: a peer from a banned host was admitted before the ban duration elapsed", step, e)
				case isBanned && !stillBanned && !admitted && nHost < perIP && nAll < total:
					bad("step %d %s: the ban has expired but the peer is still refused", step, e)
				case !stillBanned && admitted && nHost >= perIP:
					bad("step %d %s: admitted although %d peers of that host are already admitted (per-host limit %d; kinds: %s)", step, e, nHost, perIP, kindsOf(peers, e.Host))
				case !stillBanned && admitted && nAll >= total:
					bad("step %d %s: admitted above the total peer limit %d", step, e, total)
				case !stillBanned && !admitted && nHost < perIP && nAll < total:
					bad("step %d %s: refused although no limit is reached (host %d/%d, total %d/%d)", step, e, nHost, perIP, nAll, total)
				}
				if !admitted && !b.Disconnected(idx) {
					bad("step %d %s: a refused peer was not disconnected", step, e)
				}
				if !stillBanned && isBanned {
					delete(banned, e.Host)
				}
			case e.Kind == "done":
				if peers[e.Idx].In {
					b.Done(e.Idx)
					peers[e.Idx].In = false
				}
			case e.Kind == "ban":
				b.Ban(e.Idx)
				banned[peers[e.Idx].Host] = time.Now().Add(banDur)
			case e.Kind == "tick-half":
				// (two of these end 300 ms before a ban made at the start runs out: the last second of a
				// ban is still the ban)
				time.Sleep(banDur/2 - 150*time.Millisecond)
			case e.Kind == "tick-full":
				time.Sleep(banDur + time.Second)
			}
			// counters equal the model's counts; zero when everybody left
			cc, groups, in, out, pers := b.Dump()
			wantIn, wantOut, wantPers := 0, 0, 0
			hostCount := map[string]int{}
			outAll := 0
			for _, p := range peers {
				if !p.In {
					continue
				}
				switch p.Kind {
				case "inbound":
					wantIn++
					hostCount[p.Host]++
				case "outbound":
					wantOut++
					hostCount[p.Host]++
					outAll++
				default:
					wantPers++
					hostCount[p.Host]++
					outAll++
				}
			}
			if in != wantIn || out != wantOut || pers != wantPers {
				bad("step %d %s: peer sets (in %d, out %d, persistent %d) differ from the admitted set (%d, %d, %d)", step, e, in, out, pers, wantIn, wantOut, wantPers)
			}
			for h, n := range cc {
				if n != hostCount[h] {
					bad("step %d %s: per-host counter of %s is %d, admitted peers of that host: %d", step, e, h, n, hostCount[h])
				}
				if n < 0 {
					bad("step %d %s: per-host counter of %s is negative", step, e, h)
				}
			}
			sum := 0
			for g, n := range groups {
				sum += n
				if n < 0 {
					bad("step %d %s: outbound group counter %s is negative", step, e, g)
				}
			}
			if sum != outAll {
				bad("step %d %s: outbound group counters sum to %d, outbound peers admitted: %d", step, e, sum, outAll)
			}
		}
		// canonical state
		var ps []string
		for i, p := range peers {
			if p.In {
				ps = append(ps, fmt.Sprintf("%d:%s@%s", i, p.Kind, p.Host))
			}
		}
		var bs []string
		for h, u := range banned {
			left := time.Until(u)
			bucket := "expired"
			if left > banDur/2+time.Second {
				bucket = "full"
			} else if left > time.Second {
				bucket = "half"
			} else if left > 0 {
				bucket = "last-second"
			}
			bs = append(bs, h+":"+bucket)
		}
		sort.Strings(bs)
		// peers are interchangeable up to (kind, host): key on the multiset
		var ms []string
		for _, p := range peers {
			if p.In {
				ms = append(ms, p.Kind+"@"+p.Host)
			}
		}
		sort.Strings(ms)
		// the implementation's own ban table is part of the state (an entry that has expired but
		// was never removed is a different state from no entry)
		var ib []string
		for h, u := range b.Banned() {
			left := time.Until(u)
			bucket := "expired"
			if left > banDur/2+time.Second {
				bucket = "full"
			} else if left > time.Second {
				bucket = "half"
			} else if left > 0 {
				bucket = "last-second"
			}
			ib = append(ib, h+":"+bucket)
		}
		sort.Strings(ib)
		res.Key = strings.Join(ms, ",") + "|" + strings.Join(bs, ",") + "|impl:" + strings.Join(ib, ",")
		res.Peers = peers
	})
	return res
}

func kindsOf(peers []mPeer, host string) string {
	var k []string
	for _, p := range peers {
		if p.In && p.Host == host {
			k = append(k, p.Kind)
		}
	}
	return strings.Join(k, ",")
}

func runC18(t *testing.T, env core.Env, rep *core.Report) {
	rep.Rule = "one evaluation = one event (add inbound/outbound/persistent from a host, done, ban, clock advance) applied in one reachable state of the real peer bookkeeping handlers, or one environment answer (dial success/refusal, disconnect, remove, retry timer) applied in one reachable state of the real connection manager, each compared with a counting model; non-trivial = a limit, a ban or a failed dial is involved; distinct by canonical state x event"
	if env.Replay != "" {
		var rf struct {
			Replay struct {
				Part   string          `json:"part"`
				Events json.RawMessage `json:"events"`
				Target int             `json:"target"`
				Policy string          `json:"policy"`
			} `json:"replay"`
		}
		core.ReadJSON(env.Replay, &rf)
		rep.Bound = "replay of " + env.Replay
		rep.Executions, rep.Evaluations, rep.States = 1, 1, 1
		switch rf.Replay.Part {
		case "admission":
			var hist []bookEv
			_ = json.Unmarshal(rf.Replay.Events, &hist)
			for _, p := range runBook(t, hist).Problems {
				rep.Violate(core.Violation{Kind: "admission/" + classifyAdmission(p), What: p, Replay: map[string]any{"engine": "netwalk", "property": "C18", "part": "admission", "events": hist, "events_str": fmt.Sprint(hist)}})
			}
		case "connmgr":
			var hist []cmEv
			if json.Unmarshal(rf.Replay.Events, &hist) != nil {
				for i := 0; i < 26; i++ {
					hist = append(hist, cmEv{Kind: "refuse"})
				}
			}
			for _, p := range runCM(t, rf.Replay.Target, rf.Replay.Policy, hist).Problems {
				rep.Violate(core.Violation{Kind: "connmgr/" + classifyCM(p), What: p, Replay: map[string]any{"engine": "netwalk", "property": "C18", "part": "connmgr", "target": rf.Replay.Target, "policy": rf.Replay.Policy, "events": hist}})
			}
		}
		return
	}
	depth := 8
	if env.Tier == "thorough" {
		depth = 10
	}
	_, perIP := p2p.VerifLimits()
	rep.Bound = fmt.Sprintf("[admission: BFS depth %d over {add(inbound|outbound|persistent, h1|h2), done, ban, tick ban/2, tick ban} at the production limits (per-host %d) + directed run to the total limit] [connection manager: BFS over dial outcomes {success, refusal}, disconnect, remove, retry tick for targets {1,2,3,8} (thorough: 1..8) with address policies {fresh, single}; directed 26-refusal run on a single address]", depth, perIP)
	// ---- (a) BFS -----------------------------------------------------------------------------
	if env.Mine(0) {
		seen := map[string]bool{}
		frontier := [][]bookEv{nil}
		for d := 0; d <= depth && len(frontier) > 0; d++ {
			var next [][]bookEv
			for _, hist := range frontier {
				if rep.Expired() {
					return
				}
				r := runBook(t, hist)
				rep.Executions++
				if seen[r.Key] && len(r.Problems) == 0 {
					continue
				}
				seen[r.Key] = true
				rep.States++
				rep.Evaluations++
				if len(hist) > 0 {
					rep.DistinctNontrivial++
				}
				for _, p := range r.Problems {
					kind := "admission/" + classifyAdmission(p)
					rep.Violate(core.Violation{Kind: kind, What: p, Replay: map[string]any{"engine": "netwalk", "property": "C18", "part": "admission", "events": hist, "events_str": fmt.Sprint(hist)}})
				}
				if len(r.Problems) > 0 || d == depth {
					continue
				}
				var evs []bookEv
				for _, h := range []string{"10.1.1.1", "10.2.2.2"} {
					for _, k := range []string{"add-inbound", "add-outbound", "add-persistent"} {
						evs = append(evs, bookEv{Kind: k, Host: h})
					}
				}
				// done / ban: one representative per (kind, host) class, the lowest index
				reps := map[string]int{}
				for i, p := range r.Peers {
					if p.In {
						c := p.Kind + "@" + p.Host
						if _, ok := reps[c]; !ok {
							reps[c] = i
						}
					}
				}
				for _, i := range reps {
					evs = append(evs, bookEv{Kind: "done", Idx: i}, bookEv{Kind: "ban", Idx: i})
				}
				evs = append(evs, bookEv{Kind: "tick-half"}, bookEv{Kind: "tick-full"})
				sort.Slice(evs, func(a, b int) bool { return evs[a].String() < evs[b].String() })
				for _, e := range evs {
					rep.Transitions++
					next = append(next, append(append([]bookEv{}, hist...), e))
				}
				rep.Sample(func() any { return map[string]any{"part": "admission", "events": fmt.Sprint(hist), "state": r.Key} })
			}
			frontier = next
		}
	}
	// directed: fill up to the total limit along the boundary, everyone leaves, counters at zero
	if env.Mine(1) {
		total, per := p2p.VerifLimits()
		var hist []bookEv
		for i := 0; i <= total+2; i++ {
			hist = append(hist, bookEv{Kind: []string{"add-inbound", "add-outbound"}[i%2], Host: fmt.Sprintf("10.3.%d.1", i/per)})
		}
		for i := 0; i <= total+2; i++ {
			hist = append(hist, bookEv{Kind: "done", Idx: i})
		}
		r := runBook(t, hist)
		rep.Executions++
		rep.Evaluations++
		rep.States++
		for _, p := range r.Problems {
			rep.Violate(core.Violation{Kind: "admission/" + classifyAdmission(p), What: "total-limit run: " + p, Replay: map[string]any{"engine": "netwalk", "property": "C18", "part": "admission-total-limit"}})
		}
	}
	// ---- (b) connection manager ----------------------------------------------------------------------
	job := 1
	targets := []int{1, 2, 3, 8}
	if env.Tier == "thorough" {
		targets = []int{1, 2, 3, 4, 5, 6, 7, 8}
	}
	for _, target := range targets {
		for _, policy := range []string{"fresh", "single"} {
			job++
			if !env.Mine(job) || rep.Expired() {
				continue
			}
			cmDepth := 9
			if env.Tier == "thorough" {
				cmDepth = 11
			}
			if target > 3 {
				cmDepth -= 1 // (the state set is closed under the key well before that)
			}
			cmBFS(t, rep, target, policy, cmDepth)
		}
	}
	// directed long outages: 30 refusals / 30 retry intervals without any address, for every target and
	// address policy, refusals answered in bursts (several slots fail within one retry interval)
	for _, target := range []int{1, 2, 3, 8} {
		for _, policy := range []string{"fresh", "single", "none-then-fresh"} {
			for _, burst := range []int{1, 2} {
				job++
				if !env.Mine(job) || rep.Expired() {
					continue
				}
				var hist []cmEv
				for i := 0; i < 30; i++ {
					if policy == "none-then-fresh" {
						hist = append(hist, cmEv{Kind: "tick"})
						continue
					}
					for b := 0; b < burst; b++ {
						hist = append(hist, cmEv{Kind: "refuse"})
					}
					if i%3 == 2 {
						hist = append(hist, cmEv{Kind: "tick"})
					}
				}
				r := runCM(t, target, policy, hist)
				rep.Executions++
				rep.Evaluations++
				rep.DistinctNontrivial++
				rep.States++
				for _, p := range r.Problems {
					rep.Violate(core.Violation{Kind: "connmgr/" + classifyCM(p) + "/after_long_outage", What: fmt.Sprintf("target %d, addresses %s, long outage (bursts of %d): %s", target, policy, burst, p),
						Replay: map[string]any{"engine": "netwalk", "property": "C18", "part": "connmgr", "target": target, "policy": policy, "events": hist}})
				}
			}
		}
	}
	job++
	if env.Mine(job) {
		// directed: one address, refused again and again
		var hist []cmEv
		for i := 0; i < 26; i++ {
			hist = append(hist, cmEv{Kind: "refuse"})
		}
		r := runCM(t, 1, "single", hist)
		rep.Executions++
		rep.Evaluations++
		rep.DistinctNontrivial++
		for _, p := range r.Problems {
			rep.Violate(core.Violation{Kind: "connmgr/" + classifyCM(p) + "/after_26_refusals_of_one_address", What: "26 refusals of the only address, then every dial succeeds: " + p, Replay: map[string]any{"engine": "netwalk", "property": "C18", "part": "connmgr", "target": 1, "policy": "single", "events": "26 x refuse"}})
		}
	}
}

func classifyAdmission(p string) string {
	switch {
	case strings.Contains(p, "per-host limit") && strings.Contains(p, "persistent"):
		return "per_host_limit_exceeded_with_persistent_peers"
	case strings.Contains(p, "per-host limit"):
		return "per_host_limit_exceeded"
	case strings.Contains(p, "total peer limit"):
		return "total_limit_exceeded"
	case strings.Contains(p, "banned host was admitted"):
		return "admitted_while_banned"
	case strings.Contains(p, "still refused"):
		return "refused_after_ban"
	case strings.Contains(p, "refused although"):
		return "refused_without_reason"
	case strings.Contains(p, "counter") || strings.Contains(p, "peer sets"):
		return "counter_leak"
	}
	return "other"
}

// ---- connection manager rig ----------------------------------------------------------------------------

type cmEv struct {
	Kind string `json:"kind"` // ok | refuse | disconnect | remove | tick
	Idx  int    `json:"idx,omitempty"`
}

func (e cmEv) String() string {
	if e.Kind == "disconnect" || e.Kind == "remove" {
		return fmt.Sprintf("%s(%d)", e.Kind, e.Idx)
	}
	return e.Kind
}

type fakeConn struct {
	net.Conn
	mu     sync.Mutex
	closed bool
}

func (c *fakeConn) Close() error {
	c.mu.Lock()
	c.closed = true
	c.mu.Unlock()
	return nil
}
func (c *fakeConn) isClosed() bool { c.mu.Lock(); defer c.mu.Unlock(); return c.closed }

type pendingDial struct {
	addr   string
	seq    int // order of the GetNewAddress call that produced the address (canonical identity of the dial)
	done   bool
	answer chan error
}

type cmResult struct {
	Key      string
	Problems []string
	Dials    int
	Open     []uint64
}

func classifyCM(p string) string {
	switch {
	case strings.Contains(p, "more than the target"):
		return "above_target"
	case strings.Contains(p, "does not get back"):
		return "target_not_reached"
	}
	return "other"
}

func runCM(t *testing.T, target int, policy string, evs []cmEv) (res cmResult) {
	synctest.Test(t, func(*testing.T) {
		var mu sync.Mutex
		var dials []*pendingDial
		type est struct {
			id   uint64
			conn *fakeConn
		}
		var open []est
		addrN := 0
		bannedAddrs := map[string]bool{}
		addrSeq := map[net.Addr]int{}
		addrsAvailable := false // policy "none-then-fresh": no address until the outage is over
		log := zerolog.Nop()
		var cm *connmgr.ConnManager
		cfg := &connmgr.Config{
			TargetOutbound: uint32(target),
			RetryDuration:  5 * time.Second,
			Logger:         &log,
			GetNewAddress: func() (net.Addr, error) {
				mu.Lock()
				defer mu.Unlock()
				var a *net.TCPAddr
				if policy == "none-then-fresh" && !addrsAvailable {
					return nil, errors.New("no address available")
				}
				if policy == "single" {
					if bannedAddrs["10.5.0.1:8333"] {
						addrN++
						a = &net.TCPAddr{IP: net.ParseIP(fmt.Sprintf("10.6.0.%d", addrN%250+1)), Port: 8333}
					} else {
						a = &net.TCPAddr{IP: net.ParseIP("10.5.0.1"), Port: 8333}
					}
				} else {
					addrN++
					a = &net.TCPAddr{IP: net.ParseIP(fmt.Sprintf("10.5.%d.%d", addrN/250, addrN%250+1)), Port: 8333}
				}
				// every request gets its own address object: the pointer identifies the request
				// when the manager dials it
				addrSeq[a] = len(addrSeq)
				return a, nil
			},
			BanAddress: func(a string) { mu.Lock(); bannedAddrs[a] = true; mu.Unlock() },
			Dial: func(a net.Addr) (net.Conn, error) {
				d := &pendingDial{addr: a.String(), answer: make(chan error, 1)}
				mu.Lock()
				d.seq = addrSeq[a]
				dials = append(dials, d)
				mu.Unlock()
				if err := <-d.answer; err != nil {
					return nil, err
				}
				return &fakeConn{}, nil
			},
			OnConnection: func(c *connmgr.ConnReq, conn net.Conn, _ *zerolog.Logger) {
				mu.Lock()
				open = append(open, est{c.ID(), conn.(*fakeConn)})
				mu.Unlock()
			},
		}
		var err error
		cm, err = connmgr.New(cfg)
		if err != nil {
			res.Problems = append(res.Problems, "harness: "+err.Error())
			return
		}
		cm.Start()
		synctest.Wait()
		answered := 0
		liveOpen := func() []est {
			mu.Lock()
			defer mu.Unlock()
			var out []est
			for _, e := range open {
				if !e.conn.isClosed() {
					out = append(out, e)
				}
			}
			return out
		}
		check := func(where string) {
			if n := len(liveOpen()); n > target {
				res.Problems = append(res.Problems, fmt.Sprintf("%s: %d outbound connections are open, more than the target %d", where, n, target))
			}
		}
		// the dial that is answered next is the pending one whose address was handed out first - a
		// canonical choice: the order in which the manager's goroutines got to call Dial is not
		answer := func(err error) bool {
			mu.Lock()
			var d *pendingDial
			for _, c := range dials {
				if !c.done && (d == nil || c.seq < d.seq) {
					d = c
				}
			}
			if d == nil {
				mu.Unlock()
				return false
			}
			d.done = true
			answered++
			mu.Unlock()
			d.answer <- err
			synctest.Wait()
			return true
		}
		for i, e := range evs {
			switch e.Kind {
			case "ok":
				answer(nil)
			case "refuse":
				answer(errors.New("connection refused"))
			case "disconnect":
				if lo := liveOpen(); e.Idx < len(lo) {
					cm.Disconnect(lo[e.Idx].id)
				}
			case "remove":
				if lo := liveOpen(); e.Idx < len(lo) {
					cm.Remove(lo[e.Idx].id)
				}
			case "tick":
				time.Sleep(6 * time.Second)
			case "addresses":
				mu.Lock()
				addrsAvailable = true
				mu.Unlock()
			}
			synctest.Wait()
			check(fmt.Sprintf("after event %d (%s)", i, e))
		}
		lo := liveOpen()
		mu.Lock()
		pend := len(dials) - answered
		mu.Unlock()
		g, per := connmgr.VerifFailures(cm)
		var pa []string
		for a, n := range per {
			if n > 0 {
				pa = append(pa, fmt.Sprintf("%s=%d", a, n))
			}
		}
		sort.Strings(pa)
		removed := 0
		for _, e := range evs {
			if e.Kind == "remove" {
				removed++
			}
		}
		res.Key = fmt.Sprintf("open=%d pendingDials=%d global=%d perAddr=%v removed=%d handler[%s]", len(lo), pend, g, pa, removed, connmgr.VerifHandlerState(cm))
		res.Dials = pend
		for _, e := range lo {
			res.Open = append(res.Open, e.id)
		}
		// fair closure: from now on every dial succeeds, the clock runs: exactly `target` open
		// connections must result (a connection removed on purpose is not replaced)
		wantOpen := target
		mu.Lock()
		addrsAvailable = true
		mu.Unlock()
		for round := 0; round < 200; round++ {
			if !answer(nil) {
				if len(liveOpen()) >= wantOpen {
					break
				}
				time.Sleep(6 * time.Second)
				synctest.Wait()
				if round > 120 {
					break
				}
			}
			check("fair continuation")
		}
		if n := len(liveOpen()); n != wantOpen && removed == 0 {
			res.Problems = append(res.Problems, fmt.Sprintf("with every dial succeeding and 10+ minutes of clock the manager does not get back to the target: %d of %d outbound connections", n, wantOpen))
		}
		cm.Stop()
		connmgr.VerifForget(cm)
		// release dials that are still waiting so that their goroutines end
		mu.Lock()
		for _, d := range dials {
			if !d.done {
				d.done = true
				d.answer <- errors.New("shutdown")
			}
		}
		mu.Unlock()
		synctest.Wait()
	})
	return res
}

func cmBFS(t *testing.T, rep *core.Report, target int, policy string, depth int) {
	seen := map[string]bool{}
	frontier := [][]cmEv{nil}
	for d := 0; d <= depth && len(frontier) > 0; d++ {
		var next [][]cmEv
		for _, hist := range frontier {
			if rep.Expired() {
				return
			}
			r := runCM(t, target, policy, hist)
			rep.Executions++
			if seen[r.Key] && len(r.Problems) == 0 {
				continue
			}
			seen[r.Key] = true
			rep.States++
			rep.Evaluations++
			for _, e := range hist {
				if e.Kind != "ok" {
					rep.DistinctNontrivial++
					break
				}
			}
			for _, p := range r.Problems {
				rep.Violate(core.Violation{Kind: "connmgr/" + classifyCM(p), What: fmt.Sprintf("target %d, addresses %s, after %v: %s", target, policy, hist, p),
					Replay: map[string]any{"engine": "netwalk", "property": "C18", "part": "connmgr", "target": target, "policy": policy, "events": hist}})
			}
			if len(r.Problems) > 0 || d == depth {
				continue
			}
			var evs []cmEv
			if r.Dials > 0 {
				evs = append(evs, cmEv{Kind: "ok"}, cmEv{Kind: "refuse"})
			}
			for i := range r.Open {
				evs = append(evs, cmEv{Kind: "disconnect", Idx: i})
				if i == 0 {
					evs = append(evs, cmEv{Kind: "remove", Idx: i})
				}
			}
			evs = append(evs, cmEv{Kind: "tick"})
			for _, e := range evs {
				rep.Transitions++
				next = append(next, append(append([]cmEv{}, hist...), e))
			}
			rep.Sample(func() any {
				return map[string]any{"part": "connmgr", "target": target, "policy": policy, "events": fmt.Sprint(hist), "state": r.Key}
			})
		}
		frontier = next
	}
}
