package netwalk

import (
	"fmt"
	"os"
	"strings"
	"testing"

	"github.com/bitcoin-sv/block-headers-service/verifh/core"
)

func TestMain(m *testing.M) {
	code := m.Run()
	core.Cleanup()
	os.Exit(code)
}

// linear returns block specs for a chain of n blocks (ids 1..n) and a fork b (ids n+1..)
// branching after height forkAt with forkLen blocks.
func tree(n, forkAt, forkLen int) []BlockSpec {
	bs := []BlockSpec{{}}
	for i := 1; i <= n; i++ {
		bs = append(bs, BlockSpec{Parent: i - 1})
	}
	parent := forkAt
	for k := 0; k < forkLen; k++ {
		bs = append(bs, BlockSpec{Parent: parent})
		parent = len(bs) - 1
	}
	return bs
}

func seq(a, b int) []int {
	var out []int
	for i := a; i <= b; i++ {
		out = append(out, i)
	}
	return out
}

// scenarios enumerates the configuration product of each family.
func scenarios(tier string) []*Scenario {
	var out []*Scenario
	engines := []string{"legacy", "experimental"}
	// ---- family L: linear catch-up -------------------------------------------------------
	for _, eng := range engines {
		for _, caps := range [][]int{{0}, {2}, {2, 0}} {
			if eng == "experimental" && len(caps) > 1 {
				continue // "within its single-outbound-peer design"
			}
			for _, cpOn := range []bool{true, false} {
				cpLists := [][]int{{}}
				if eng == "legacy" && cpOn {
					cpLists = [][]int{{3}, {2, 4}, {5}}
				}
				if eng == "experimental" && !cpOn {
					continue // the experimental engine has no checkpoint switch: one configuration
				}
				for _, cps := range cpLists {
					for _, initial := range [][]int{{}, {1, 2}} {
						for pick := 0; pick < len(caps); pick++ {
							sc := &Scenario{Engine: eng, Blocks: tree(5, 0, 0), DisableCheckpoints: !cpOn, Checkpoints: cps, Initial: initial, Pick: pick}
							for i, c := range caps {
								ns := NodeSpec{Chain: seq(1, 5), Cap: c, Reliable: i == 0}
								if i == 1 {
									ns.Chain = seq(1, 3) // the second node lags behind
								}
								sc.Nodes = append(sc.Nodes, ns)
							}
							if eng == "experimental" && len(caps) > 1 {
								sc.Nodes[1].Initiator = true // its design: one outbound peer, others inbound
							}
							sc.Name = fmt.Sprintf("L/%s caps=%v checkpoints=%v%v initial=%v pick=%d", eng, caps, cpOn, cps, initial, pick)
							out = append(out, sc)
						}
					}
				}
			}
		}
	}
	// ---- family A: announcements after (or racing with) the initial sync ------------------------------
	for _, eng := range engines {
		for _, nn := range []int{1, 2} {
			for _, cpOn := range []bool{true, false} {
				if eng == "experimental" && (!cpOn || nn > 1) {
					continue
				}
				sc := &Scenario{Engine: eng, Blocks: tree(5, 0, 0), DisableCheckpoints: !cpOn, Initial: nil}
				if cpOn && eng == "legacy" {
					sc.Checkpoints = []int{2}
				}
				for i := 0; i < nn; i++ {
					sc.Nodes = append(sc.Nodes, NodeSpec{Chain: seq(1, 3), Future: seq(4, 5), Reliable: i == 0, Initiator: eng == "experimental" && i == 1})
				}
				sc.Name = fmt.Sprintf("A/%s nodes=%d checkpoints=%v", eng, nn, cpOn)
				out = append(out, sc)
			}
		}
	}
	// ---- family F: fork, the competing branch overtakes within one reply -------------------------------
	for _, eng := range engines {
		if eng == "experimental" {
			continue // a fork needs two peers
		}
		for _, initial := range [][]int{{}, {1, 2, 3}, {1, 2, 5}} {
			for pick := 0; pick < 2; pick++ {
				// main a1..a4 (ids 1..4); fork after a2: b3,b4,b5 (ids 5,6,7) - longer, hence more work
				sc := &Scenario{Engine: eng, Blocks: tree(4, 2, 3), Initial: initial, Pick: pick}
				sc.Nodes = []NodeSpec{{Chain: []int{1, 2, 5, 6, 7}, Reliable: true}, {Chain: seq(1, 4), Initiator: eng == "experimental"}}
				sc.Name = fmt.Sprintf("F/%s initial=%v pick=%d", eng, initial, pick)
				out = append(out, sc)
			}
		}
	}
	// ---- family G: the reliable peer lags when it connects and grows afterwards; the other one can leave
	for _, cpOn := range []bool{true, false} {
		for pick := 0; pick < 2; pick++ {
			sc := &Scenario{Engine: "legacy", Blocks: tree(6, 0, 0), DisableCheckpoints: !cpOn, Pick: pick}
			sc.Nodes = []NodeSpec{{Chain: seq(1, 2), Future: seq(3, 6), Reliable: true}, {Chain: seq(1, 4)}}
			sc.Name = fmt.Sprintf("G/legacy checkpoints=%v pick=%d", cpOn, pick)
			out = append(out, sc)
		}
	}
	// ---- family O: A and G again with a chain older than 24 h (the service never calls itself current)
	for _, base := range append([]*Scenario{}, out...) {
		fam := base.Name[:2]
		if fam != "A/" && fam != "G/" {
			continue
		}
		sc := *base
		sc.OldChain = true
		sc.Name = "O" + base.Name
		out = append(out, &sc)
	}
	// ---- experimental engine, one outbound peer, database with a fork already stored -----------------
	for _, initial := range [][]int{{1, 2, 3, 4}, {1, 2, 5}} {
		sc := &Scenario{Engine: "experimental", Blocks: tree(4, 2, 3), Initial: initial}
		// one reply must suffice to overtake the stored tip (the statement's own caveat): cap 2000
		sc.Nodes = []NodeSpec{{Chain: []int{1, 2, 5, 6, 7}, Reliable: true}}
		sc.Name = fmt.Sprintf("F1/experimental initial=%v", initial)
		out = append(out, sc)
	}
	return out
}

func depthFor(tier string, sc *Scenario) int {
	d := 6
	if len(sc.Nodes) > 1 {
		d = 7
	}
	if tier == "thorough" {
		d += 3
	}
	return d
}

func TestCheck(t *testing.T) {
	env := core.GetEnv()
	rep := core.NewReport(env, "netwalk")
	defer func() { rep.Write(env.Out) }()
	if env.Replay != "" && (env.Prop == "C06" || env.Prop == "C07") {
		replayNet(t, env, rep)
		return
	}
	switch env.Prop {
	case "C06":
		runC06(t, env, rep)
	case "C07":
		runC07(t, env, rep)
	case "C18":
		runC18(t, env, rep)
	case "C13":
		runC13wire(t, env, rep)
	default:
		t.Fatalf("unknown VERIF_PROP %q", env.Prop)
	}
}

// detcheck re-executes a fixed fraction of the event lists (all of them with VERIF_DETCHECK=all)
// and requires the same observation: an execution must be a function of its event list.
func detcheck(t *testing.T, rep *core.Report, sc *Scenario, hist []Event, out Outcome) {
	if os.Getenv("VERIF_DETCHECK") != "all" && rep.Executions%29 != 0 {
		return
	}
	again := Run(t, sc, hist, true, 2)
	rep.Rechecked++
	a := fmt.Sprint(out.Key, out.Converged, out.Class, out.Containment, out.Problems)
	b := fmt.Sprint(again.Key, again.Converged, again.Class, again.Containment, again.Problems)
	if a != b {
		rep.Outcome("recheck-differs")
		if rep.Extra == nil {
			rep.Extra = map[string]any{}
		}
		l, _ := rep.Extra["recheck_differs"].([]any)
		if len(l) < 5 {
			rep.Extra["recheck_differs"] = append(l, map[string]any{"scenario": sc.Name, "events": evs(hist), "first": a, "second": b})
		}
	}
}

func evs(es []Event) string {
	var s []string
	for _, e := range es {
		s = append(s, e.String())
	}
	return strings.Join(s, " ")
}

func runC06(t *testing.T, env core.Env, rep *core.Report) {
	rep.Rule = "one evaluation = one reachable state of one scenario (configuration x scripted peer set) reached by an event sequence over {connect, deliver, announce, drop, mute, tick}; in every state the deterministic fair continuation must reach the greatest-work chain offered by the reliable peer; non-trivial = the prefix contains a fault (drop/mute/tick), an announcement, or a second peer; distinct by canonical state (store rows, private sync state, per-node queues, fake time)"
	scs := scenarios(env.Tier)
	progress, _ := os.OpenFile(env.Out+".progress", os.O_CREATE|os.O_RDWR, 0o644)
	mark := func(s string) {
		if progress != nil {
			_, _ = progress.WriteAt([]byte(fmt.Sprintf("%-400.400s", s)), 0)
		}
	}
	rep.Bound = fmt.Sprintf("[%d scenarios: families L (linear, caps {inf},{2},{2,inf}; checkpoints on/off; lists {mid},{two},{at tip}; initial {genesis, prefix}), A (announcements by 1-2 nodes), F (fork overtaking in one reply; initial {genesis, main stored, stale fork stored}) x {legacy, experimental} x sync-peer pick; BFS depth 6-7 (quick) / 9-10 (thorough) over the event alphabet, max 2 connects per node]", len(scs))
	for si, sc := range scs {
		if !env.Mine(si) || rep.Expired() {
			continue
		}
		if f := os.Getenv("VERIF_SCENARIO"); f != "" && !strings.Contains(sc.Name, f) {
			continue
		}
		depth := depthFor(env.Tier, sc)
		seen := map[string]bool{}
		frontier := [][]Event{nil}
		closed := false
		for d := 0; d <= depth && len(frontier) > 0; d++ {
			var next [][]Event
			for _, hist := range frontier {
				if rep.Expired() {
					return
				}
				mark(fmt.Sprintf("class=explore kind=%s events=%s", sc.Name, evs(hist)))
				out := Run(t, sc, hist, true, 2)
				rep.Executions++
				detcheck(t, rep, sc, hist, out)
				if seen[out.Key] {
					continue
				}
				seen[out.Key] = true
				rep.States++
				rep.Evaluations++
				nt := len(sc.Nodes) > 1
				for _, e := range hist {
					if e.Kind != "connect" && e.Kind != "deliver" {
						nt = true
					}
				}
				if nt {
					rep.DistinctNontrivial++
				}
				if judgeC06(rep, sc, hist, out) {
					// (still expanded: the verdict on this state's fair continuation says nothing about
					// its successors under other events)
					rep.Outcome("not-converged")
				} else {
					rep.Outcome("converged")
				}
				if len(out.Problems) > 0 {
					continue // a request-safety violation: do not build on it
				}
				if out.Leak != "" {
					rep.Outcome("goroutines-left-at-bubble-exit (shutdown leak, outside C06)")
				}
				rep.Sample(func() any {
					return map[string]any{"scenario": sc.Name, "events": evs(hist), "closure_steps": len(out.ClosureLog), "tip_height": out.TipHeight}
				})
				if d == depth {
					continue
				}
				for _, e := range out.Enabled {
					rep.Transitions++
					next = append(next, append(append([]Event{}, hist...), e))
				}
			}
			frontier = next
			if len(frontier) == 0 {
				closed = true
			}
		}
		if !closed {
			rep.Outcome("depth-bound-reached")
		} else {
			rep.Outcome("state-set-closed")
		}
	}
	mark("done")
	_ = progress.Close()
	_ = os.Remove(env.Out + ".progress")
}

// judgeC06 applies the C06 oracle to one execution; reports whether it violated.
func judgeC06(rep *core.Report, sc *Scenario, hist []Event, out Outcome) bool {
	replay := map[string]any{"engine": "netwalk", "property": "C06", "scenario": sc, "events": hist, "events_str": evs(hist)}
	for _, p := range out.Problems {
		rep.Violate(core.Violation{Kind: "safety/" + sc.Engine, What: sc.Name + ": " + p, Replay: replay})
	}
	if !out.Converged {
		kind := fmt.Sprintf("no_convergence/%s/%s", sc.Engine, classify(sc, hist))
		if out.Class != "" {
			kind = fmt.Sprintf("no_convergence/%s/%s", sc.Engine, out.Class)
		}
		rep.Violate(core.Violation{Kind: kind, What: fmt.Sprintf("%s: after [%s] the fair continuation (reliable peer keeps answering, reconnects, 15 min of clock) does not reach the best chain offered", sc.Name, evs(hist)),
			Replay: replay, Expected: out.WantTip, Observed: map[string]any{"tip": out.GotTip, "tip_height": out.TipHeight, "closure": tail(out.ClosureLog, 12), "state": out.Key, "nodes": out.NodeLogs}})
		return true
	}
	return false
}

type netReplay struct {
	Replay struct {
		Scenario *Scenario `json:"scenario"`
		Events   []Event   `json:"events"`
	} `json:"replay"`
}

// replayNet re-executes exactly one recorded (scenario, event list) of C06 / C07, five times,
// and requires identical observations each time.
func replayNet(t *testing.T, env core.Env, rep *core.Report) {
	var rf netReplay
	core.ReadJSON(env.Replay, &rf)
	sc, hist := rf.Replay.Scenario, rf.Replay.Events
	rep.Bound = "replay of " + env.Replay
	var keys []string
	for i := 0; i < 5; i++ {
		out := Run(t, sc, hist, true, 2)
		rep.Executions++
		keys = append(keys, fmt.Sprint(out.Key, out.Converged, out.Containment, out.Problems))
		if i > 0 {
			if keys[i] != keys[0] {
				rep.HarnessError("replay is not deterministic: run " + fmt.Sprint(i) + " differs from run 0")
			}
			rep.Rechecked++
			continue
		}
		rep.States++
		rep.Evaluations++
		rep.Transitions += int64(len(hist))
		if env.Prop == "C07" {
			judgeC07(rep, sc, hist, out)
		} else {
			judgeC06(rep, sc, hist, out)
		}
	}
}

// classify names the configuration class of a non-converging case (for known-finding
// predicates): checkpoint mode and whether an announcement is involved.
func classify(sc *Scenario, hist []Event) string {
	c := "checkpoints_on"
	if sc.DisableCheckpoints {
		c = "checkpoints_off"
	}
	fam := strings.SplitN(sc.Name, "/", 2)[0]
	ann := ""
	for _, e := range hist {
		if strings.HasPrefix(e.Kind, "announce") {
			ann = ".announce"
		}
		if e.Kind == "drop" || e.Kind == "mute" {
			ann += ".fault"
			break
		}
	}
	return fmt.Sprintf("%s.%s.nodes%d%s", fam, c, len(sc.Nodes), ann)
}

func tail(s []string, n int) []string {
	if len(s) > n {
		return s[len(s)-n:]
	}
	return s
}
