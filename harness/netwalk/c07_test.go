package netwalk

import (
	"fmt"
	"os"
	"testing"

	"github.com/bitcoin-sv/block-headers-service/verifh/core"
)

// c07Scenarios: a misbehaving node M (id 1) serves a chain that holds the offending header at
// height p; an honest node H (id 0) serves the main chain 1..5.
func c07Scenarios() []*Scenario {
	var out []*Scenario
	for _, eng := range []string{"legacy", "experimental"} {
		for p := 1; p <= 3; p++ {
			// blocks 1..5 main; 6 = offending header at height p (child of block p-1); 7 = its child
			bs := tree(5, 0, 0)
			bs = append(bs, BlockSpec{Parent: p - 1}, BlockSpec{Parent: 6})
			mChain := append(seq(1, p-1), 6, 7)
			for _, initial := range [][]int{{}, seq(1, p-1)} {
				if p == 1 && len(initial) == 0 && false {
					continue
				}
				// (a) forbidden header
				for _, cpOn := range []bool{true, false} {
					if eng == "experimental" && !cpOn {
						continue
					}
					sc := &Scenario{Engine: eng, Blocks: bs, Initial: initial, Forbidden: 6, BadBlock: 6, BadNode: 1, BanExpected: eng == "legacy", DisableCheckpoints: !cpOn}
					sc.Nodes = []NodeSpec{{Chain: seq(1, 5), Reliable: true, Initiator: eng == "experimental"}, {Chain: mChain}}
					sc.Name = fmt.Sprintf("forbidden/%s position=%d initial=%v checkpoints=%v", eng, p, initial, cpOn)
					out = append(out, sc)
				}
				// (b) header contradicting a checkpoint (the experimental engine reads its list from the
				// network parameters the harness hands it - see exec)
				{
					lists := [][]int{{p}, {p, 5}}
					if p > 1 {
						lists = append(lists, []int{1, p})
					}
					for _, cps := range lists {
						sc := &Scenario{Engine: eng, Blocks: bs, Initial: initial, Checkpoints: cps, BadBlock: 6, BadNode: 1}
						sc.Nodes = []NodeSpec{{Chain: seq(1, 5), Reliable: true, Initiator: eng == "experimental"}, {Chain: mChain}}
						sc.Name = fmt.Sprintf("checkpoint/%s position=%d list=%v initial=%v", eng, p, cps, initial)
						out = append(out, sc)
					}
				}
			}
		}
	}
	// two connections from the misbehaving host: the second offence comes after the first ban ran
	// out (ban 60 s, below the 90 s a peer may take to answer getheaders)
	{
		bs := tree(5, 0, 0)
		bs = append(bs, BlockSpec{Parent: 0}, BlockSpec{Parent: 6})
		sc := &Scenario{Engine: "legacy", Blocks: bs, Forbidden: 6, BadBlock: 6, BadNode: 1, BadNodes: []int{2}, BanExpected: true, BanSeconds: 60}
		sc.Nodes = []NodeSpec{{Chain: seq(1, 5), Reliable: true}, {Chain: []int{6, 7}, Host: 1}, {Chain: []int{6, 7}, Host: 1}}
		sc.Name = "forbidden/legacy two connections of one host, ban 60 s"
		out = append(out, sc)
	}
	// two misbehaving nodes with different headers at the checkpoint height: the second one arrives
	// when the first is already stored at that height (equal work: it is classified STALE)
	for _, initial := range [][]int{{}, {1, 2}} {
		bs := tree(5, 0, 0)
		bs = append(bs, BlockSpec{Parent: 2}, BlockSpec{Parent: 6}, BlockSpec{Parent: 2}, BlockSpec{Parent: 8})
		sc := &Scenario{Engine: "legacy", Blocks: bs, Initial: initial, Checkpoints: []int{3}, BadBlock: 6, BadNode: 1, BadNodes: []int{2}, BadBlocks: []int{8}}
		sc.Nodes = []NodeSpec{{Chain: seq(1, 5), Reliable: true}, {Chain: []int{1, 2, 6, 7}}, {Chain: []int{1, 2, 8, 9}}}
		sc.Name = fmt.Sprintf("checkpoint/legacy two nodes with different headers at the checkpoint height initial=%v", initial)
		out = append(out, sc)
	}
	// two misbehaving nodes whose chains END at the same contradicting header: the second one's
	// message holds nothing but headers the service already has
	{
		bs := tree(5, 0, 0)
		bs = append(bs, BlockSpec{Parent: 2})
		sc := &Scenario{Engine: "legacy", Blocks: bs, Checkpoints: []int{3}, BadBlock: 6, BadNode: 1, BadNodes: []int{2}, BadBlocks: []int{6}}
		sc.Nodes = []NodeSpec{{Chain: seq(1, 5), Reliable: true}, {Chain: []int{1, 2, 6}}, {Chain: []int{1, 2, 6}}}
		sc.Name = "checkpoint/legacy two nodes whose chains end at the same contradicting header"
		out = append(out, sc)
	}
	// a heavy tip below the checkpoint height; the misbehaving node's lighter fork reaches the
	// checkpoint height with less work (all of it STALE)
	{
		bs := tree(5, 0, 0)
		bs[1].Bits = core.BitsHeavy
		bs = append(bs, BlockSpec{Parent: 0}, BlockSpec{Parent: 6}, BlockSpec{Parent: 7})
		sc := &Scenario{Engine: "legacy", Blocks: bs, Initial: []int{1}, Checkpoints: []int{3}, BadBlock: 8, BadNode: 1}
		sc.Nodes = []NodeSpec{{Chain: seq(1, 5), Reliable: true}, {Chain: []int{6, 7, 8}}}
		sc.Name = "checkpoint/legacy lighter fork reaches the checkpoint height below a heavy tip"
		out = append(out, sc)
	}
	return out
}

func runC07(t *testing.T, env core.Env, rep *core.Report) {
	rep.Rule = "one evaluation = one reachable state of one scenario (offending header at batch position p, checkpoint list, initial store, engine, connection order chosen by the search) with the containment oracle evaluated after every event and the fair continuation with the honest node run in every state; non-trivial = the misbehaving node delivered the offending header in the prefix; distinct by canonical state"
	scs := c07Scenarios()
	depth := 6
	if env.Tier == "thorough" {
		depth = 8
	}
	depthOf := func(sc *Scenario) int {
		if sc.BanSeconds > 0 {
			return depth + 1 // connect x2, deliver, tick x2, deliver, connect
		}
		return depth
	}
	rep.Bound = fmt.Sprintf("[%d scenarios: forbidden header / checkpoint-contradicting header at position 1..3 of the misbehaving node's chain x initial store {genesis, prefix} x checkpoint lists {at the position; that + last; first + that} x {checkpoints on, off} x {legacy, experimental (forbidden only)}; BFS depth %d over {connect, deliver, tick 35/200/600 s}, both connection orders, max 2 connects per node; ban duration 600 s]", len(scs), depth)
	progress, _ := os.OpenFile(env.Out+".progress", os.O_CREATE|os.O_RDWR, 0o644)
	mark := func(s string) {
		if progress != nil {
			_, _ = progress.WriteAt([]byte(fmt.Sprintf("%-400.400s", s)), 0)
		}
	}
	// jobs: one per scenario; the scenarios with three nodes are split by their first event (each
	// subtree searched on its own, by whichever shard owns it - duplicates across subtrees are the
	// price of the spread)
	type job struct {
		sc    *Scenario
		first []Event
		root  bool
	}
	var jobs []job
	for _, sc := range scs {
		if len(sc.Nodes) < 3 {
			jobs = append(jobs, job{sc, nil, true})
			continue
		}
		root := Run(t, sc, nil, false, 2)
		for i, e := range root.Enabled {
			jobs = append(jobs, job{sc, []Event{e}, i == 0})
		}
	}
	for ji, jb := range jobs {
		if !env.Mine(ji) || rep.Expired() {
			continue
		}
		sc := jb.sc
		seen := map[string]bool{}
		frontier := [][]Event{nil}
		if jb.first != nil {
			frontier = [][]Event{jb.first}
			if jb.root {
				frontier = [][]Event{nil, jb.first} // the empty history is judged once
			}
		}
		depth := depthOf(sc)
		for d := 0; d <= depth && len(frontier) > 0; d++ {
			var next [][]Event
			for _, hist := range frontier {
				if rep.Expired() {
					return
				}
				mark(fmt.Sprintf("class=explore kind=%s events=%s", sc.Name, evs(hist)))
				out := Run(t, sc, hist, true, 2)
				rep.Executions++
				detcheck(t, rep, sc, hist, out)
				k := out.Key + fmt.Sprint(" misbehaved=", out.Misbehaved)
				if seen[k] {
					continue
				}
				seen[k] = true
				rep.States++
				rep.Evaluations++
				if out.Misbehaved {
					rep.DistinctNontrivial++
					rep.Outcome("offending-header-delivered")
				}
				bad := judgeC07(rep, sc, hist, out)
				if bad {
					continue
				}
				rep.Sample(func() any {
					return map[string]any{"scenario": sc.Name, "events": evs(hist), "offending_header_delivered": out.Misbehaved}
				})
				if len(hist) >= depth || (jb.first != nil && len(hist) == 0) {
					continue // (the empty history of a split scenario is expanded by the jobs themselves)
				}
				for _, e := range out.Enabled {
					if e.Kind == "drop" || e.Kind == "mute" || e.Kind == "announce" || e.Kind == "announce-headers" {
						continue
					}
					rep.Transitions++
					next = append(next, append(append([]Event{}, hist...), e))
				}
			}
			frontier = next
		}
	}
	mark("done")
	_ = progress.Close()
	_ = os.Remove(env.Out + ".progress")
}

// judgeC07 applies the C07 oracle to one execution; reports whether it violated.
func judgeC07(rep *core.Report, sc *Scenario, hist []Event, out Outcome) bool {
	replay := map[string]any{"engine": "netwalk", "property": "C07", "scenario": sc, "events": hist, "events_str": evs(hist)}
	bad := false
	for _, p := range out.Containment {
		bad = true
		rep.Violate(core.Violation{Kind: "containment/" + sc.Engine + "/" + kindOf(p), What: fmt.Sprintf("%s: after [%s]: %s", sc.Name, evs(hist), p), Replay: replay})
	}
	for _, p := range out.Problems {
		bad = true
		rep.Violate(core.Violation{Kind: "requests/" + sc.Engine, What: fmt.Sprintf("%s: after [%s]: %s", sc.Name, evs(hist), p), Replay: replay})
	}
	// (a state whose fair continuation does not converge is still expanded: the liveness verdict
	// says nothing about the safety of its successors)
	if !out.Converged {
		kind := "no_convergence_after_misbehaviour/" + sc.Engine
		if out.Class != "" {
			kind = "no_convergence/" + sc.Engine + "/" + out.Class
		}
		rep.Violate(core.Violation{Kind: kind, What: fmt.Sprintf("%s: after [%s] the fair continuation with the honest node does not reach its chain", sc.Name, evs(hist)), Replay: replay,
			Expected: out.WantTip, Observed: map[string]any{"tip_height": out.TipHeight, "state": out.Key, "closure": tail(out.ClosureLog, 10)}})
	}
	return bad
}

func kindOf(p string) string {
	switch {
	case contains(p, "still connected"):
		return "not_disconnected"
	case contains(p, "was admitted"):
		return "admitted_while_banned"
	case contains(p, "still refused"):
		return "refused_after_ban"
	case contains(p, "is stored") || contains(p, "is served"):
		return "forbidden_stored"
	case contains(p, "descendant"):
		return "descendant_not_orphan"
	}
	return "other"
}

func contains(s, sub string) bool {
	for i := 0; i+len(sub) <= len(s); i++ {
		if s[i:i+len(sub)] == sub {
			return true
		}
	}
	return false
}
