package netwalk

import (
	"os"
	"runtime"
	"testing"
)

// TestNoLeak guards the harness itself: executions must not pile up memory (a registry that kept
// every finished server alive once made long runs die of memory exhaustion).
func TestNoLeak(t *testing.T) {
	if os.Getenv("VERIF_LEAKTEST") == "" {
		t.Skip()
	}
	scs := c07Scenarios()
	sc := scs[len(scs)-2]
	hist := []Event{{Kind: "connect", Node: 1}, {Kind: "deliver", Node: 1}, {Kind: "connect", Node: 2}, {Kind: "deliver", Node: 2}, {Kind: "connect", Node: 0}, {Kind: "tick", Sec: 35}}
	var ms runtime.MemStats
	heap := func() uint64 { runtime.GC(); runtime.ReadMemStats(&ms); return ms.HeapAlloc }
	for k := 0; k < 50; k++ {
		Run(t, sc, hist, true, 2)
	}
	before := heap()
	for k := 0; k < 200; k++ {
		Run(t, sc, hist, true, 2)
	}
	after := heap()
	t.Logf("heap after 50 executions %d KB, after 250 executions %d KB", before/1024, after/1024)
	if after > before+4<<20 {
		t.Fatalf("200 executions grew the heap by %d KB", (after-before)/1024)
	}
}
