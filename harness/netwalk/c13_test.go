package netwalk

import (
	"errors"
	"fmt"
	"net"
	"testing"
	"testing/synctest"
	"time"

	"github.com/bitcoin-sv/block-headers-service/config"
	"github.com/bitcoin-sv/block-headers-service/internal/chaincfg"
	"github.com/bitcoin-sv/block-headers-service/internal/chaincfg/chainhash"
	exppeer "github.com/bitcoin-sv/block-headers-service/internal/transports/p2p/peer"
	"github.com/bitcoin-sv/block-headers-service/internal/wire"
	"github.com/bitcoin-sv/block-headers-service/transports/p2p"
	legacypeer "github.com/bitcoin-sv/block-headers-service/transports/p2p/peer"
	"github.com/bitcoin-sv/block-headers-service/verifh/core"
)

// C13, wire part: the same getheaders requests that storewalk sends to the service functions are
// sent as real getheaders frames by a scripted node to both engines (legacy OnGetHeaders,
// experimental handleGetHeadersMsg), and the headers message that comes back is compared with
// the reference answer.
func runC13wire(t *testing.T, env core.Env, rep *core.Report) {
	rep.Rule = "one evaluation = one getheaders frame (locator of length 1-2 over longest/stale/orphan/unknown hashes, every stop) sent by a scripted node to a synced service, the returned headers frame compared with the reference; non-trivial = the locator or stop holds a stale, orphan or unknown hash"
	rep.Bound = "[wire: store = main chain of 5 + stale branch of 2 + orphan; all locators of length 1-2 over the 10 hashes x 11 stops x {legacy, experimental}]"
	// third run: the experimental engine starts below a checkpoint, syncs through it from the
	// scripted node and is asked afterwards
	for ei, eng := range []string{"legacy", "experimental", "experimental+checkpoint"} {
		if !env.Mine(ei) {
			continue
		}
		synctest.Test(t, func(*testing.T) { c13wireEngine(rep, eng) })
	}
}

func c13wireEngine(rep *core.Report, eng string) {
	viaCheckpoint := eng == "experimental+checkpoint"
	// blocks 1..5 main, 6,7 stale branch after 2, 8 orphan (unknown parent)
	bs := tree(5, 2, 2)
	bs = append(bs, BlockSpec{Parent: core.ParentUnknown})
	sc := &Scenario{Engine: eng, Blocks: bs, Name: "C13-wire/" + eng}
	u, blocks := buildBlocks(sc)
	oldLookup, oldDial, oldCP := config.Lookup, config.Dial, config.Checkpoints
	config.Lookup = func(string) ([]net.IP, error) { return nil, errors.New("no dns") }
	config.Dial = func(string, string, time.Duration) (net.Conn, error) { return nil, errors.New("no dial") }
	config.Checkpoints = []chaincfg.Checkpoint{{Height: 0, Hash: chaincfg.MainNetParams.GenesisHash}}
	defer func() { config.Lookup, config.Dial, config.Checkpoints = oldLookup, oldDial, oldCP }()
	rig := core.NewRig(core.RigOpts{})
	seq := []int{1, 2, 3, 4, 5, 6, 7, 8}
	stored := seq
	if viaCheckpoint {
		// stored before the engine starts: 1, 2 and the orphan; 3..5 come over the wire
		seq, stored = []int{1, 2, 8, 3, 4, 5}, []int{1, 2, 8}
	}
	for _, id := range stored {
		core.SafeAdd(rig.Svc.Chains, blocks[id].Raw.Source())
	}
	model := core.ModelOf(u, 0, seq)
	if ok, why := core.CheckConsistent(core.DumpHeaders(rig.DB), core.ModelOf(u, 0, stored)); viaCheckpoint && !ok {
		rep.Outcome("skipped:store diverges from C01 model: " + why)
		rig.Close()
		return
	}
	if ok, why := core.CheckConsistent(core.DumpHeaders(rig.DB), model); !viaCheckpoint && !ok {
		rep.Outcome("skipped:store diverges from C01 model: " + why)
		rig.Close()
		return
	}
	longest := model.LongestPath()
	labels := model.Labels()
	n := &Node{ID: 0, Addr: &net.TCPAddr{IP: net.ParseIP("10.0.0.1"), Port: 8333}, Cap: 2000, Honest: true}
	n.Chain = []block{blocks[0], blocks[1]}
	if viaCheckpoint {
		n.Chain = []block{blocks[0], blocks[1], blocks[2], blocks[3], blocks[4], blocks[5]}
	}
	a, b := net.Pipe()
	svcEnd := &tcpConn{Conn: a, remote: n.Addr, local: &net.TCPAddr{IP: net.ParseIP("10.9.9.9"), Port: 8333}}
	n.attach(b)
	var vs *p2p.VerifServer
	var xp *exppeer.Peer
	if eng == "legacy" {
		var err error
		vs, err = p2p.VerifNewServer(rig.Svc, map[*legacypeer.Peer]*legacypeer.SyncState{}, rig.Cfg.P2P, core.Quiet())
		if err != nil {
			rep.HarnessError(err.Error())
			return
		}
		_ = vs.Start()
		synctest.Wait()
		vs.DialOut(svcEnd, n.Addr)
	} else {
		params := chaincfg.MainNetParams
		params.Checkpoints = nil
		if viaCheckpoint {
			h3 := chainhash.Hash(blocks[3].Hash)
			params.Checkpoints = []chaincfg.Checkpoint{{Height: int32(blocks[3].Height), Hash: &h3}}
		}
		xp, _ = exppeer.NewPeer(svcEnd, false, rig.Cfg.P2P, &params, rig.Svc.Headers, rig.Svc.Chains, core.Quiet())
		go func() {
			if xp.Connect() == nil {
				_ = xp.StartHeadersSync()
			}
		}()
	}
	synctest.Wait()
	// let the service's own initial request be answered (nothing new for it)
	for i := 0; i < 6 && n.Deliver(); i++ {
		synctest.Wait()
	}
	if viaCheckpoint {
		if ok, why := core.CheckConsistent(core.DumpHeaders(rig.DB), model); !ok {
			rep.Violate(core.Violation{Kind: "wire.sync_through_checkpoint/experimental", What: "the experimental engine did not store the node's chain through the checkpoint: " + why, Replay: map[string]any{"engine": "netwalk", "property": "C13", "wire_engine": eng}})
		}
	}
	hashes := []string{}
	for _, m := range model.Order {
		hashes = append(hashes, m.Hash)
	}
	hashes = append(hashes, "00000000000000000000000000000000000000000000000000000000deadbeef")
	ch := func(h string) chainhash.Hash { x, _ := chainhash.NewHashFromStr(h); return *x }
	var locs [][]string
	for _, x := range hashes {
		locs = append(locs, []string{x})
		for _, y := range hashes {
			if x != y {
				locs = append(locs, []string{x, y})
			}
		}
	}
	stops := append([]string{""}, hashes...)
	// reference answer (same rule as storewalk's C13 oracle)
	reference := func(l []string, st string) (int, []*core.MHeader) {
		start := 0
		for _, h := range l {
			if m := model.ByHash[h]; m != nil && labels[h] == core.LLongest && int(m.Height) > start {
				start = int(m.Height)
			}
		}
		end := start + 2000
		nothing := false
		if m := model.ByHash[st]; m != nil && labels[st] == core.LLongest {
			if int(m.Height) <= start {
				nothing = true
			} else if int(m.Height) < end {
				end = int(m.Height)
			}
		}
		if end > len(longest)-1 {
			end = len(longest) - 1
		}
		var want []*core.MHeader
		if !nothing {
			for h := start + 1; h <= end; h++ {
				want = append(want, longest[h])
			}
		}
		return start, want
	}
	toHashes := func(l []string, st string) ([]chainhash.Hash, chainhash.Hash) {
		var lh []chainhash.Hash
		for _, h := range l {
			lh = append(lh, ch(h))
		}
		stop := chainhash.Hash{}
		if st != "" {
			stop = ch(st)
		}
		return lh, stop
	}
	// pipelined pairs: two requests sent back to back, both answers must be right (an answer
	// belongs to its request, also while it waits in the send queue)
	single := [][]string{}
	for _, x := range hashes {
		single = append(single, []string{x})
	}
	for _, la := range single {
		for _, lb := range single {
			_, wa := reference(la, "")
			_, wb := reference(lb, "")
			if len(wa) == 0 || len(wb) == 0 {
				continue
			}
			k, _ := n.Answer()
			ha, sa := toHashes(la, "")
			hb, sb := toHashes(lb, "")
			n.Ask(ha, sa)
			n.Ask(hb, sb)
			synctest.Wait()
			rep.Evaluations++
			rep.Executions++
			rep.Transitions += 2
			got := n.AnswersSince(k)
			ok := len(got) == 2
			for gi, w := range [][]*core.MHeader{wa, wb} {
				if !ok {
					break
				}
				ok = len(got[gi]) == len(w)
				for i := 0; ok && i < len(w); i++ {
					ok = got[gi][i].BlockHash().String() == w[i].Hash
				}
			}
			if !ok {
				rep.Violate(core.Violation{Kind: "wire.getheaders.pipelined/" + eng, What: fmt.Sprintf("%s: two getheaders sent back to back (locators %v, %v): the two headers frames differ from the two reference answers", eng, shortL(model, la), shortL(model, lb)),
					Replay: map[string]any{"engine": "netwalk", "property": "C13", "wire_engine": eng, "pipelined": []any{shortL(model, la), shortL(model, lb)}}, Expected: fmt.Sprintf("%d and %d headers", len(wa), len(wb)), Observed: fmt.Sprintf("%d frames", len(got))})
			} else {
				rep.Outcome("wire:" + eng + ":pipelined-ok")
			}
		}
	}
	for _, l := range locs {
		for _, st := range stops {
			var lh []chainhash.Hash
			for _, h := range l {
				lh = append(lh, ch(h))
			}
			stop := chainhash.Hash{}
			if st != "" {
				stop = ch(st)
			}
			before, _ := n.Answer()
			n.Ask(lh, stop)
			synctest.Wait()
			after, got := n.Answer()
			rep.Evaluations++
			rep.Executions++
			rep.Transitions++
			nontrivial := false
			for _, h := range append(append([]string{}, l...), st) {
				if h != "" && labels[h] != core.LLongest {
					nontrivial = true
				}
			}
			if nontrivial {
				rep.DistinctNontrivial++
			}
			// reference answer (same rule as storewalk's C13 oracle)
			start := 0
			for _, h := range l {
				if m := model.ByHash[h]; m != nil && labels[h] == core.LLongest && int(m.Height) > start {
					start = int(m.Height)
				}
			}
			end := start + 2000
			nothing := false
			if m := model.ByHash[st]; m != nil && labels[st] == core.LLongest {
				if int(m.Height) <= start {
					nothing = true
				} else if int(m.Height) < end {
					end = int(m.Height)
				}
			}
			if end > len(longest)-1 {
				end = len(longest) - 1
			}
			var want []*core.MHeader
			if !nothing {
				for h := start + 1; h <= end; h++ {
					want = append(want, longest[h])
				}
			}
			if after == before {
				got = nil // no reply at all
			}
			ok := len(got) == len(want)
			for i := 0; ok && i < len(got); i++ {
				ok = got[i].BlockHash().String() == want[i].Hash
			}
			desc := fmt.Sprintf("%s: getheaders(locator=%v, stop=%s)", eng, shortL(model, l), shortL(model, []string{st}))
			if !ok {
				kind := "wire.getheaders/" + eng
				if after == before && len(want) > 0 {
					kind = "wire.getheaders.no_reply/" + eng
				}
				rep.Violate(core.Violation{Kind: kind, What: desc + ": the headers frame differs from the reference answer", Replay: map[string]any{"engine": "netwalk", "property": "C13", "wire_engine": eng, "locator": shortL(model, l), "stop": shortL(model, []string{st})},
					Expected: fmt.Sprintf("%d headers from height %d", len(want), start+1), Observed: fmt.Sprintf("%d headers (reply received: %v)", len(got), after != before)})
			} else {
				rep.Outcome("wire:" + eng + ":ok")
			}
		}
	}
	rep.States++
	rep.Samples = append(rep.Samples, map[string]any{"wire_engine": eng, "requests": len(locs) * len(stops)})
	if xp != nil {
		exppeer.VerifQuiesce(xp)
	}
	n.Drop()
	synctest.Wait()
	if vs != nil {
		_ = vs.Shutdown()
	}
	synctest.Wait()
	rig.Close()
	_ = wire.MaxBlockHeadersPerMsg
}

func shortL(t *core.Tree, l []string) []string {
	var out []string
	for _, h := range l {
		switch m := t.ByHash[h]; {
		case h == "":
			out = append(out, "zero")
		case m == nil:
			out = append(out, "unknown")
		default:
			out = append(out, fmt.Sprintf("n%d@h%d", m.Node, m.Height))
		}
	}
	return out
}
