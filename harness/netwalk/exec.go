package netwalk

import (
	"errors"
	"fmt"
	"net"
	"sort"
	"strings"
	"testing"
	"testing/synctest"
	"time"

	"github.com/bitcoin-sv/block-headers-service/config"
	"github.com/bitcoin-sv/block-headers-service/internal/chaincfg"
	"github.com/bitcoin-sv/block-headers-service/internal/chaincfg/chainhash"
	exppeer "github.com/bitcoin-sv/block-headers-service/internal/transports/p2p/peer"
	"github.com/bitcoin-sv/block-headers-service/transports/p2p"
	"github.com/bitcoin-sv/block-headers-service/transports/p2p/p2psync"
	legacypeer "github.com/bitcoin-sv/block-headers-service/transports/p2p/peer"
	"github.com/bitcoin-sv/block-headers-service/verifh/core"
	"github.com/bitcoin-sv/block-headers-service/verifh/vrand"
)

// NodeSpec describes one scripted node of a scenario; block ids index Scenario.Blocks.
type NodeSpec struct {
	Chain     []int `json:"chain"`  // best chain above genesis, in order
	Future    []int `json:"future"` // blocks it announces later
	Cap       int   `json:"cap"`    // 0 = 2000
	Reliable  bool  `json:"reliable"`
	Initiator bool  `json:"initiator"`
	Host      int   `json:"host,omitempty"` // 0 = own host; k>0 = shares host k with other nodes
}

// BlockSpec is one block of the scenario tree: parent id (0 = genesis).
type BlockSpec struct {
	Parent int    `json:"parent"`
	Bits   uint32 `json:"bits"`
}

// Scenario is one closed system to explore.
type Scenario struct {
	Name               string      `json:"name"`
	Engine             string      `json:"engine"` // legacy | experimental
	Blocks             []BlockSpec `json:"blocks"` // index 1..; [0] unused
	Nodes              []NodeSpec  `json:"nodes"`
	DisableCheckpoints bool        `json:"disable_checkpoints"`
	// OldChain: every header is older than 24 h, so HeaderService.IsCurrent() is false at any
	// height (the common case of an initial sync); otherwise the headers are recent.
	OldChain    bool  `json:"old_chain,omitempty"`
	Checkpoints []int `json:"checkpoints"` // block ids; empty = only genesis
	Initial     []int `json:"initial"`     // blocks stored before the engine starts
	Pick        int   `json:"pick"`        // answer to sync-peer selection (mod candidates)
	Forbidden   int   `json:"forbidden"`   // block id on the forbidden list (0 = none)
	// C07: BadBlock is the header whose delivery is misbehaviour (the forbidden block, or the
	// block contradicting a checkpoint); BadNode delivers it; BanExpected: the engine bans for it.
	BadBlock    int   `json:"bad_block,omitempty"`
	BadNode     int   `json:"bad_node,omitempty"`
	BadNodes    []int `json:"bad_nodes,omitempty"`  // further misbehaving nodes
	BadBlocks   []int `json:"bad_blocks,omitempty"` // their offending headers (parallel to BadNodes; default BadBlock)
	BanExpected bool  `json:"ban_expected,omitempty"`
	BanSeconds  int   `json:"ban_seconds,omitempty"` // configured ban duration (default 600)
}

// Event is one environment step.
type Event struct {
	Kind string `json:"kind"` // connect | deliver | announce | announce-headers | drop | mute | tick | deliver-bad
	Node int    `json:"node"`
	Sec  int    `json:"sec,omitempty"`
}

func (e Event) String() string {
	if e.Kind == "tick" {
		return fmt.Sprintf("tick(%ds)", e.Sec)
	}
	return fmt.Sprintf("%s(%d)", e.Kind, e.Node)
}

// Outcome is what one execution observed.
type Outcome struct {
	Key              string   // canonical state after the prefix
	Enabled          []Event  // events enabled in that state
	Converged        bool     // fair closure reached the expected tip
	ClosureLog       []string // what the closure did
	TipHeight        int32
	WantTip          string
	GotTip           string
	Problems         []string // safety problems observed (panic in engine, wrong locator, ...)
	NodeLogs         []string
	Sent             [][]string // per node: getheaders the service sent (first locator height..stop height)
	StoreRows        []core.Row
	Elapsed          int
	Banned           []string
	Disconnected     []bool
	Leak             string
	ClosureAnnounced bool
	NotCurrent       bool // tip below the last checkpoint: announcements of non-sync peers are ignored by design
	Containment      []string
	Misbehaved       bool
	SyncPeerNode     int // legacy: node index of the sync peer (-1 none)
	Class            string
}

type world struct {
	sc       *Scenario
	u        *core.Universe
	blocks   []block // by id; [0] = genesis
	rig      *core.Rig
	nodes    []*Node
	legacy   *p2p.VerifServer
	exp      []*exppeer.Peer // experimental peers, per node (nil if not connected)
	elapsed  int
	connects []int
	problems []string
	peersMap map[*legacypeer.Peer]*legacypeer.SyncState
	// C07 bookkeeping
	misbehavedAt int // fake time of the last bad delivery, -1 = never
	containment  []string
}

func buildBlocks(sc *Scenario) (*core.Universe, []block) {
	nodes := make([]core.BNode, len(sc.Blocks))
	for i := 1; i < len(sc.Blocks); i++ {
		bits := sc.Blocks[i].Bits
		if bits == 0 {
			bits = core.BitsLight
		}
		nodes[i] = core.BNode{Parent: sc.Blocks[i].Parent, Bits: bits}
	}
	bp := core.Blueprint{Nodes: nodes}
	if sc.OldChain {
		bp.TimeBase = 900000000 // 1998: more than 24 h before the bubble's clock (2000-01-01)
	}
	u := core.Fabricate(bp, 0)
	bl := make([]block, len(sc.Blocks))
	height := make([]int, len(sc.Blocks))
	for i := range sc.Blocks {
		if i > 0 && sc.Blocks[i].Parent >= 0 {
			height[i] = height[sc.Blocks[i].Parent] + 1
		} else if i > 0 {
			height[i] = 1 // unknown parent: an orphan root
		}
		bl[i] = block{Raw: u.Raw[i], Hash: u.H[i], Height: height[i]}
	}
	return u, bl
}

// expectedBest: the greatest-work chain offered by the reliable nodes (their chain incl. future
// blocks already announced at the time of asking).
func (w *world) expectedBest() block {
	best := w.blocks[0]
	bestWork := 0
	for _, n := range w.nodes {
		if !n.Honest {
			continue
		}
		work := 0
		for _, b := range n.Chain[1:] {
			work += int(core.RefWork(b.Raw.Bits).Int64())
		}
		if work > bestWork {
			bestWork, best = work, n.Chain[len(n.Chain)-1]
		}
	}
	return best
}

func (w *world) connect(i int) {
	n := w.nodes[i]
	a, b := net.Pipe()
	svcEnd := &tcpConn{Conn: a, remote: n.Addr, local: &net.TCPAddr{IP: net.ParseIP("10.9.9.9"), Port: 8333}}
	n.attach(b)
	w.connects[i]++
	switch w.sc.Engine {
	case "legacy":
		if n.Initiator {
			w.legacy.Accept(svcEnd)
		} else {
			w.legacy.DialOut(svcEnd, n.Addr)
		}
	default:
		cfg := w.rig.Cfg.P2P
		params := chaincfg.MainNetParams
		params.Checkpoints = nil
		// (the experimental engine takes its checkpoints from the network parameters)
		for _, id := range w.sc.Checkpoints {
			h := chainhash.Hash(w.blocks[id].Hash)
			params.Checkpoints = append(params.Checkpoints, chaincfg.Checkpoint{Height: int32(w.blocks[id].Height), Hash: &h})
		}
		p, err := exppeer.NewPeer(svcEnd, n.Initiator, cfg, &params, w.rig.Svc.Headers, w.rig.Svc.Chains, core.Quiet())
		if err != nil {
			w.problems = append(w.problems, "NewPeer: "+err.Error())
			return
		}
		w.exp[i] = p
		// connectPeer of the experimental server: Connect, then StartHeadersSync
		go func() {
			if err := p.Connect(); err != nil {
				return
			}
			_ = p.StartHeadersSync()
		}()
	}
}

func (w *world) apply(e Event) {
	switch e.Kind {
	case "connect":
		w.connect(e.Node)
		if w.sc.BadBlock > 0 && w.isBad(e.Node) && w.misbehavedAt >= 0 && w.sc.BanExpected {
			synctest.Wait()
			banSeconds := w.banSeconds()
			banned := w.elapsed-w.misbehavedAt < banSeconds
			conn := w.nodes[e.Node].isConnected()
			if banned && conn {
				w.containment = append(w.containment, fmt.Sprintf("node %d was admitted %d s after its ban started (ban duration %d s)", e.Node, w.elapsed-w.misbehavedAt, banSeconds))
			}
			if !banned && !conn {
				w.containment = append(w.containment, fmt.Sprintf("node %d is still refused %d s after its ban started (ban duration %d s)", e.Node, w.elapsed-w.misbehavedAt, banSeconds))
			}
		}
	case "deliver":
		n := w.nodes[e.Node]
		if n.Deliver() && w.sc.BadBlock > 0 && w.isBad(e.Node) {
			bad := false
			for _, h := range n.lastReply {
				if h.BlockHash() == chainhash.Hash(w.blocks[w.badBlockOf(e.Node)].Hash) {
					bad = true
				}
			}
			if bad {
				synctest.Wait()
				w.misbehavedAt = w.elapsed
				if n.isConnected() {
					w.containment = append(w.containment, fmt.Sprintf("node %d delivered the offending header and is still connected", e.Node))
				}
			}
		}
	case "announce":
		w.nodes[e.Node].Announce(false)
	case "announce-headers":
		w.nodes[e.Node].Announce(true)
	case "drop":
		w.nodes[e.Node].Drop()
	case "mute":
		w.nodes[e.Node].Mute()
	case "tick":
		time.Sleep(time.Duration(e.Sec) * time.Second)
		w.elapsed += e.Sec
	}
	synctest.Wait()
	w.checkRequests()
	w.checkContainment()
}

func (w *world) banSeconds() int {
	if w.sc.BanSeconds > 0 {
		return w.sc.BanSeconds
	}
	return 600
}

func (w *world) badBlockOf(node int) int {
	for i, k := range w.sc.BadNodes {
		if k == node && i < len(w.sc.BadBlocks) {
			return w.sc.BadBlocks[i]
		}
	}
	return w.sc.BadBlock
}

func (w *world) isBad(node int) bool {
	if node == w.sc.BadNode {
		return true
	}
	for _, k := range w.sc.BadNodes {
		if k == node {
			return true
		}
	}
	return false
}

// checkContainment (C07): the forbidden header is never stored or served, and whatever descends
// from it can only be an orphan.
func (w *world) checkContainment() {
	if w.sc.Forbidden == 0 {
		return
	}
	f := w.blocks[w.sc.Forbidden].Hash.Hex()
	if h, err := w.rig.Svc.Headers.GetHeaderByHash(f); err == nil && h != nil {
		w.containment = append(w.containment, "the forbidden header is served by GetHeaderByHash")
	}
	desc := map[string]bool{f: true}
	rows := core.DumpHeaders(w.rig.DB)
	for changed := true; changed; {
		changed = false
		for _, r := range rows {
			if desc[r.Prev] && !desc[r.Hash] {
				desc[r.Hash] = true
				changed = true
			}
		}
	}
	for _, r := range rows {
		if r.Hash == f {
			w.containment = append(w.containment, "the forbidden header is stored")
		} else if desc[r.Hash] && r.State != core.LOrphan {
			w.containment = append(w.containment, fmt.Sprintf("a descendant of the forbidden header is stored as %s", r.State))
		}
	}
}

// checkRequests: every getheaders the service sent describes its longest chain - all locator
// entries are stored longest-chain headers in strictly descending height, and the stop hash is
// zero or the hash of a configured checkpoint.
func (w *world) checkRequests() {
	var labels map[string]string
	heights := map[string]int{}
	load := func() {
		labels = map[string]string{}
		for _, r := range core.DumpHeaders(w.rig.DB) {
			labels[r.Hash] = r.State
			var h int
			fmt.Sscan(r.Height, &h)
			heights[r.Hash] = h
		}
	}
	for _, n := range w.nodes {
		n.mu.Lock()
		reqs := n.allRequests[n.checkedRequests:]
		n.checkedRequests = len(n.allRequests)
		n.mu.Unlock()
		for _, g := range reqs {
			if labels == nil {
				load()
			}
			prev := 1 << 30
			for _, h := range g.BlockLocatorHashes {
				hs := h.String()
				if labels[hs] != core.LLongest {
					w.problems = append(w.problems, fmt.Sprintf("getheaders to node %d: locator entry %s is not a stored longest-chain header (%q)", n.ID, hs[:8], labels[hs]))
					break
				}
				if heights[hs] >= prev {
					w.problems = append(w.problems, fmt.Sprintf("getheaders to node %d: locator heights not strictly descending", n.ID))
					break
				}
				prev = heights[hs]
			}
			if len(g.BlockLocatorHashes) == 0 {
				w.problems = append(w.problems, fmt.Sprintf("getheaders to node %d: empty locator", n.ID))
			}
			stop := g.HashStop.String()
			okStop := g.HashStop == (chainhash.Hash{})
			first := -1
			if len(g.BlockLocatorHashes) > 0 {
				first = heights[g.BlockLocatorHashes[0].String()]
			}
			for _, cp := range config.Checkpoints {
				// (in the misbehaviour scenarios of C07 a contradicting header may sit at the checkpoint
				// height, so the next checkpoint can lie at or below the request's start)
				if cp.Hash.String() == stop && (int(cp.Height) > first || w.sc.BadBlock > 0) {
					okStop = true
				}
			}
			// a request that follows a block announcement may stop at the announced block
			if k := n.heightOf(g.HashStop); !okStop && k > first {
				if _, stored := labels[stop]; !stored {
					okStop = true
				}
			}
			if !okStop {
				w.problems = append(w.problems, fmt.Sprintf("getheaders to node %d from height %d: stop hash %s is neither zero nor a checkpoint ahead of the request's start", n.ID, first, stop[:8]))
			}
		}
	}
}

func (w *world) key() string {
	rows := core.DumpHeaders(w.rig.DB)
	var rs []string
	for _, r := range rows {
		rs = append(rs, r.Hash[:6]+":"+r.State[:1])
	}
	var ns []string
	for _, n := range w.nodes {
		ns = append(ns, n.Snapshot())
	}
	eng := ""
	if w.legacy != nil {
		d := p2psync.VerifDump(w.legacy.Sync())
		var ks []string
		for k, v := range d {
			ks = append(ks, fmt.Sprintf("%s=%v", k, v))
		}
		for h, left := range w.legacy.Banned() {
			ks = append(ks, fmt.Sprintf("ban[%s]=%d", h, left))
		}
		sort.Strings(ks)
		eng = strings.Join(ks, ",")
	} else {
		for i, p := range w.exp {
			if p != nil {
				eng += fmt.Sprintf("p%d{%s}", i, exppeer.VerifDump(p))
			}
		}
	}
	return fmt.Sprintf("rows[%s] eng[%s] nodes[%s] t=%d connects=%v misbehavedAt=%d", strings.Join(rs, " "), eng, strings.Join(ns, " "), w.elapsed, w.connects, w.misbehavedAt)
}

func (w *world) enabled(maxConnects int) []Event {
	var ev []Event
	anyMuted, anyPending := false, false
	for i, n := range w.nodes {
		n.mu.Lock()
		conn, muted, pend, fut, sh := n.connected, n.muted, len(n.pending), len(n.Future), n.sendHeaders
		n.mu.Unlock()
		if !conn {
			if w.connects[i] < maxConnects {
				ev = append(ev, Event{Kind: "connect", Node: i})
			}
			continue
		}
		if muted {
			anyMuted = true
			continue
		}
		if pend > 0 {
			anyPending = true
			ev = append(ev, Event{Kind: "deliver", Node: i})
		}
		if fut > 0 {
			// BIP 130: a node that was asked to "sendheaders" announces new blocks by headers,
			// otherwise by inv
			if sh {
				ev = append(ev, Event{Kind: "announce-headers", Node: i})
			} else {
				ev = append(ev, Event{Kind: "announce", Node: i})
			}
		}
		if !n.Honest {
			ev = append(ev, Event{Kind: "mute", Node: i})
			if w.sc.Engine == "legacy" {
				// the experimental engine has no handling of a peer that goes away (its reader
				// never stops): within its single-peer design the peers stay connected
				ev = append(ev, Event{Kind: "drop", Node: i})
			}
		}
	}
	// (with two connections of one host a peer may also simply be slow to answer)
	if anyMuted || !anyPending || len(w.sc.BadNodes) > 0 {
		secs := []int{35, 100, 200}
		if w.sc.BanExpected {
			secs = []int{35, 200, 600}
			if w.sc.BanSeconds > 0 && w.sc.BanSeconds < 100 {
				secs = []int{35}
			}
		}
		for _, s := range secs {
			ev = append(ev, Event{Kind: "tick", Sec: s})
		}
	}
	return ev
}

func (w *world) tipHash() (string, int32) {
	t := w.rig.Svc.Headers.GetTip()
	if t == nil {
		return "", -1
	}
	return t.Hash.String(), t.Height
}

// reached: the reliable peer's best chain is stored and the reported tip has at least its
// cumulative work (another peer may legitimately have offered more).
func (w *world) reached(want block) bool {
	tip := w.rig.Svc.Headers.GetTip()
	if tip == nil {
		return false
	}
	if tip.Hash.String() == want.Hash.Hex() {
		return true
	}
	h, err := w.rig.Svc.Headers.GetHeaderByHash(want.Hash.Hex())
	if err != nil || h == nil || string(h.State) == core.LOrphan {
		return false
	}
	return tip.CumulatedWork.Cmp(h.CumulatedWork) >= 0
}

// notCurrent: the tip is below the last configured checkpoint or older than 24 h (what
// HeaderService.IsCurrent is documented to mean - computed here from the scenario, not asked of
// the service), in which state the default engine ignores block announcements of peers other
// than the sync peer.
func (w *world) notCurrent() bool {
	_, h := w.tipHash()
	last := config.Checkpoints[len(config.Checkpoints)-1]
	return h < last.Height || w.sc.OldChain
}

// closure runs the deterministic fair continuation: reliable nodes keep answering, a reliable
// node is re-connected when none is connected, the clock advances in 35 s steps when nothing is
// pending; at most 15 minutes of fake time.
func (w *world) closure(out *Outcome) {
	want := w.expectedBest()
	out.WantTip = want.Hash.Hex()
	reconnects, ticks := 0, 0
	for round := 0; round < 400; round++ {
		if w.reached(want) {
			out.Converged = true
			return
		}
		progressed := false
		anyHonestConn := false
		for i, n := range w.nodes {
			if !n.Honest {
				continue
			}
			if n.isConnected() {
				anyHonestConn = true
			}
			if n.pendingCount() > 0 {
				n.Deliver()
				synctest.Wait()
				out.ClosureLog = append(out.ClosureLog, fmt.Sprintf("deliver(%d)", i))
				progressed = true
			}
		}
		if progressed {
			continue
		}
		// the chain keeps growing: a connected reliable node announces its next block (by headers
		// if it was asked to, else by inv)
		mined := false
		for i, n := range w.nodes {
			if !n.Honest || !n.isConnected() {
				continue
			}
			n.mu.Lock()
			fut, sh := len(n.Future), n.sendHeaders
			n.mu.Unlock()
			if fut > 0 {
				n.Announce(sh)
				synctest.Wait()
				out.ClosureLog = append(out.ClosureLog, fmt.Sprintf("announce(%d)", i))
				out.ClosureAnnounced = true
				mined = true
				break
			}
		}
		if mined {
			want = w.expectedBest()
			out.WantTip = want.Hash.Hex()
			continue
		}
		if !anyHonestConn && reconnects < 3 {
			for i, n := range w.nodes {
				if n.Honest {
					w.connect(i)
					synctest.Wait()
					reconnects++
					out.ClosureLog = append(out.ClosureLog, fmt.Sprintf("connect(%d)", i))
					break
				}
			}
			continue
		}
		if ticks >= 26 { // 26 x 35 s = 15 min 10 s
			return
		}
		time.Sleep(35 * time.Second)
		synctest.Wait()
		ticks++
		w.elapsed += 35
		out.ClosureLog = append(out.ClosureLog, "tick(35s)")
	}
}

// Run executes one event sequence in a fresh bubble and, if closure is set, the fair
// continuation after it.
func Run(t *testing.T, sc *Scenario, events []Event, closure bool, maxConnects int) (out Outcome) {
	defer func() {
		// goroutines of the engine that are still blocked when the bubble ends (a shutdown
		// leak) make synctest panic in the caller; the observations are complete by then
		if r := recover(); r != nil {
			out.Leak = fmt.Sprint(r)
		}
	}()
	synctest.Test(t, func(t *testing.T) {
		out = runInBubble(sc, events, closure, maxConnects)
	})
	return out
}

func runInBubble(sc *Scenario, events []Event, closure bool, maxConnects int) (out Outcome) {
	u, blocks := buildBlocks(sc)
	w := &world{sc: sc, u: u, blocks: blocks, connects: make([]int, len(sc.Nodes)), misbehavedAt: -1}
	// environment seams
	oldLookup, oldDial, oldCP, oldPick := config.Lookup, config.Dial, config.Checkpoints, vrand.Pick
	config.Lookup = func(string) ([]net.IP, error) { return nil, errors.New("no dns in the bubble") }
	config.Dial = func(string, string, time.Duration) (net.Conn, error) {
		return nil, errors.New("no dialing in the bubble")
	}
	cps := []chaincfg.Checkpoint{}
	for _, id := range sc.Checkpoints {
		h := chainhash.Hash(blocks[id].Hash)
		cps = append(cps, chaincfg.Checkpoint{Height: int32(blocks[id].Height), Hash: &h})
	}
	if len(cps) == 0 {
		cps = []chaincfg.Checkpoint{{Height: 0, Hash: chaincfg.MainNetParams.GenesisHash}}
	}
	config.Checkpoints = cps
	vrand.Pick = func(n int) int { return sc.Pick % n }
	restoreForbidden := core.SetForbidden()
	if sc.Forbidden > 0 {
		restoreForbidden()
		restoreForbidden = core.SetForbidden(blocks[sc.Forbidden].Hash)
	}
	defer func() {
		config.Lookup, config.Dial, config.Checkpoints, vrand.Pick = oldLookup, oldDial, oldCP, oldPick
		restoreForbidden()
	}()
	w.rig = core.NewRig(core.RigOpts{Cfg: func(c *config.AppConfig) {
		c.P2P.DisableCheckpoints = sc.DisableCheckpoints
		c.P2P.BanDuration = 10 * time.Minute
		if sc.BanSeconds > 0 {
			c.P2P.BanDuration = time.Duration(sc.BanSeconds) * time.Second
		}
	}})
	for _, id := range sc.Initial {
		core.SafeAdd(w.rig.Svc.Chains, blocks[id].Raw.Source())
	}
	for i, ns := range sc.Nodes {
		n := &Node{ID: i, Addr: &net.TCPAddr{IP: net.ParseIP(fmt.Sprintf("10.0.0.%d", i+1)), Port: 8333}, Cap: ns.Cap, Honest: ns.Reliable, Initiator: ns.Initiator}
		if ns.Host > 0 {
			n.Addr = &net.TCPAddr{IP: net.ParseIP(fmt.Sprintf("10.0.9.%d", ns.Host)), Port: 8333 + i}
		}
		if n.Cap == 0 {
			n.Cap = 2000
		}
		n.Chain = []block{blocks[0]}
		for _, id := range ns.Chain {
			n.Chain = append(n.Chain, blocks[id])
		}
		for _, id := range ns.Future {
			n.Future = append(n.Future, blocks[id])
		}
		w.nodes = append(w.nodes, n)
	}
	if sc.Engine == "legacy" {
		w.peersMap = map[*legacypeer.Peer]*legacypeer.SyncState{}
		vs, err := p2p.VerifNewServer(w.rig.Svc, w.peersMap, w.rig.Cfg.P2P, core.Quiet())
		if err != nil {
			out.Problems = append(out.Problems, "harness: cannot build server: "+err.Error())
			return
		}
		w.legacy = vs
		_ = vs.Start()
	} else {
		w.exp = make([]*exppeer.Peer, len(sc.Nodes))
	}
	synctest.Wait()
	// All event times are multiples of 5 s after this 1 s offset, the sync manager's 30 s ticker
	// started at 0: the ticker never fires at the very instant of a peer timer (ping, stall tick)
	// whose order against it the fake clock would leave to the runtime scheduler.
	time.Sleep(time.Second)
	synctest.Wait()
	for _, e := range events {
		w.apply(e)
	}
	out.Key = w.key()
	out.Enabled = w.enabled(maxConnects)
	out.Elapsed = w.elapsed
	if closure {
		w.closure(&out)
	}
	out.GotTip, out.TipHeight = w.tipHash()
	out.SyncPeerNode = -1
	if w.legacy != nil {
		if sp, _ := p2psync.VerifDump(w.legacy.Sync())["syncPeer"].(string); sp != "" {
			for i, n := range w.nodes {
				if n.Addr.String() == sp {
					out.SyncPeerNode = i
				}
			}
		}
		// name the one class the oracle recognises precisely: the sync peer is an unreliable node
		// that is connected, answers, and has nothing beyond our tip, while the reliable node is
		// connected with a better chain - the engine keeps the idle sync peer and never asks
		if !out.Converged && out.SyncPeerNode >= 0 && !w.nodes[out.SyncPeerNode].Honest {
			sp := w.nodes[out.SyncPeerNode]
			sp.mu.Lock()
			idle := sp.connected && !sp.muted && len(sp.pending) == 0 && int32(len(sp.Chain)-1) <= out.TipHeight
			sp.mu.Unlock()
			reliableUp := false
			for _, n := range w.nodes {
				if n.Honest && n.isConnected() {
					reliableUp = true
				}
			}
			// ... and the reliable node had no chance to make itself heard: it had nothing new to
			// announce during the fair continuation, or the service is not current (then the default
			// engine ignores announcements of peers other than the sync peer)
			if idle && reliableUp && (w.notCurrent() || !out.ClosureAnnounced) {
				out.Class = "idle_lagging_sync_peer_keeps_role"
			}
		}
		// second recognisable class: no sync peer at all although the reliable node is connected
		// with a better chain (it was struck off the candidates when its advertised height fell
		// behind our tip, and its later announcements arrived while we were not current)
		if cand, _ := p2psync.VerifDump(w.legacy.Sync())["candidates"].(int); !out.Converged && out.SyncPeerNode < 0 && cand == 0 && (w.notCurrent() || !out.ClosureAnnounced) {
			for _, n := range w.nodes {
				if n.Honest && n.isConnected() {
					out.Class = "reliable_peer_connected_but_no_sync_candidate"
				}
			}
		}
	}
	out.StoreRows = core.DumpHeaders(w.rig.DB)
	out.Problems = append(out.Problems, w.problems...)
	out.Containment = w.containment
	out.Misbehaved = w.misbehavedAt >= 0
	for _, n := range w.nodes {
		n.mu.Lock()
		out.NodeLogs = append(out.NodeLogs, fmt.Sprintf("node %d: %v", n.ID, n.log))
		out.Disconnected = append(out.Disconnected, !n.connected)
		n.mu.Unlock()
	}
	// teardown. Legacy: node sockets first, let every peerDoneHandler finish, then the engine.
	// Experimental: the peers first (a reader whose remote end closed never stops by itself),
	// then the node sockets.
	for _, p := range w.exp {
		if p != nil {
			exppeer.VerifQuiesce(p)
		}
	}
	for _, n := range w.nodes {
		n.Drop()
	}
	synctest.Wait()
	if w.legacy != nil {
		_ = w.legacy.Shutdown()
	}
	synctest.Wait()
	w.rig.Close()
	return out
}
