// Package netwalk is engine E3: explicit-state search over the P2P environment. One execution
// is one testing/synctest bubble holding a SQLite-backed service stack, the real sync engine
// and k scripted wire-level nodes connected through net.Pipe; time is the bubble's fake clock.
package netwalk

import (
	"fmt"
	"net"
	"sync"
	"time"

	"github.com/bitcoin-sv/block-headers-service/internal/chaincfg/chainhash"
	"github.com/bitcoin-sv/block-headers-service/internal/wire"
	"github.com/bitcoin-sv/block-headers-service/verifh/core"
)

// tcpConn makes a pipe end look like a TCP connection (both engines want a *net.TCPAddr).
type tcpConn struct {
	net.Conn
	remote, local *net.TCPAddr
}

func (c *tcpConn) RemoteAddr() net.Addr { return c.remote }
func (c *tcpConn) LocalAddr() net.Addr  { return c.local }

// block is one block of the scenario's tree.
type block struct {
	Raw    core.RawHeader
	Hash   core.Hash32
	Height int
}

// Node is a scripted, protocol-conformant peer. It owns a best chain (a root-to-leaf path of
// the scenario's tree, genesis first) that can grow, answers the handshake and pings by itself,
// and answers getheaders only when the explorer says so.
type Node struct {
	ID        int
	Addr      *net.TCPAddr
	Chain     []block // Chain[0] = genesis
	Future    []block // blocks it will mine/announce later, in order
	Cap       int     // max headers per reply
	Honest    bool
	Initiator bool // true: the node dials the service (inbound for the service)

	mu              sync.Mutex
	conn            net.Conn
	connected       bool
	closedByMe      bool
	muted           bool
	pending         []*wire.MsgGetHeaders // unanswered getheaders, oldest first
	gotHeaders      []int                 // sizes of headers messages the service sent us
	sendHeaders     bool
	gotVerack       bool
	log             []string
	bad             func(hs []*wire.BlockHeader) []*wire.BlockHeader // misbehaviour applied to the next reply
	out             chan wire.Message
	lastReply       []*wire.BlockHeader
	lastHeadersMsg  []*wire.BlockHeader // last headers message the service sent us
	allHeadersMsgs  [][]*wire.BlockHeader
	headersMsgs     int
	allRequests     []*wire.MsgGetHeaders
	checkedRequests int
	getHeadersSeen  int
}

func (n *Node) logf(f string, a ...any) {
	n.log = append(n.log, fmt.Sprintf(f, a...))
}

func (n *Node) heightOf(h chainhash.Hash) int {
	for i, b := range n.Chain {
		if chainhash.Hash(b.Hash) == h {
			return i
		}
	}
	return -1
}

func (n *Node) version() *wire.MsgVersion {
	me := wire.NewNetAddressIPPort(n.Addr.IP, uint16(n.Addr.Port), wire.SFNodeNetwork)
	you := wire.NewNetAddressIPPort(net.ParseIP("10.9.9.9"), 8333, 0)
	v := wire.NewMsgVersion(me, you, uint64(1000+n.ID), int32(len(n.Chain)-1))
	v.Services = wire.SFNodeNetwork
	v.ProtocolVersion = int32(wire.ProtocolVersion)
	v.UserAgent = fmt.Sprintf("/verif-node:%d/", n.ID)
	v.Timestamp = time.Now()
	return v
}

// write queues a message for the connection's writer goroutine. net.Pipe is unbuffered (even a
// zero-length payload write waits for a read), so a node that wrote from its reader would
// deadlock against a peer that is itself writing - which real sockets never do.
func (n *Node) write(m wire.Message) {
	n.mu.Lock()
	defer n.mu.Unlock()
	if n.out != nil {
		select {
		case n.out <- m:
		default:
			n.logf("outbox full, dropped %s", m.Command())
		}
	}
}

func (n *Node) closeOutLocked() {
	if n.out != nil {
		close(n.out)
		n.out = nil
	}
}

func (n *Node) writer(conn net.Conn, out chan wire.Message) {
	for m := range out {
		if err := wire.WriteMessage(conn, m, wire.ProtocolVersion, wire.MainNet); err != nil {
			n.mu.Lock()
			n.logf("write %s failed: %v", m.Command(), err)
			n.mu.Unlock()
			return
		}
	}
}

// attach starts the node's reader on its end of the pipe.
func (n *Node) attach(conn net.Conn) {
	n.mu.Lock()
	n.conn, n.connected, n.closedByMe, n.muted = conn, true, false, false
	n.pending = nil
	n.gotVerack = false
	n.sendHeaders = false // BIP 130: "sendheaders" holds for one connection
	n.closeOutLocked()
	n.out = make(chan wire.Message, 256)
	out := n.out
	n.mu.Unlock()
	go n.writer(conn, out)
	go n.reader(conn)
	if n.Initiator {
		n.write(n.version())
	}
}

func (n *Node) reader(conn net.Conn) {
	for {
		msg, _, err := wire.ReadMessage(conn, wire.ProtocolVersion, wire.MainNet)
		if err != nil {
			n.mu.Lock()
			if n.conn == conn {
				n.connected = false
				n.logf("connection ended: %v", err)
				n.closeOutLocked()
			}
			n.mu.Unlock()
			_ = conn.Close()
			return
		}
		n.mu.Lock()
		muted := n.muted
		n.mu.Unlock()
		switch m := msg.(type) {
		case *wire.MsgVersion:
			if !n.Initiator {
				n.write(n.version())
			}
			n.write(wire.NewMsgVerAck())
		case *wire.MsgVerAck:
			n.mu.Lock()
			n.gotVerack = true
			n.mu.Unlock()
		case *wire.MsgPing:
			if !muted {
				n.write(wire.NewMsgPong(m.Nonce))
			}
		case *wire.MsgGetHeaders:
			n.mu.Lock()
			n.pending = append(n.pending, m)
			n.allRequests = append(n.allRequests, m)
			n.getHeadersSeen++
			n.mu.Unlock()
		case *wire.MsgSendHeaders:
			n.mu.Lock()
			n.sendHeaders = true
			n.mu.Unlock()
		case *wire.MsgHeaders:
			n.mu.Lock()
			n.gotHeaders = append(n.gotHeaders, len(m.Headers))
			n.lastHeadersMsg = m.Headers
			n.allHeadersMsgs = append(n.allHeadersMsgs, m.Headers)
			n.headersMsgs++
			n.mu.Unlock()
		default:
			// getaddr, addr, protoconf, ...: not part of the header protocol
		}
	}
}

func wireHeader(r core.RawHeader) *wire.BlockHeader {
	src := r.Source()
	bh := wire.BlockHeader(src)
	return &bh
}

// reply computes the protocol-conformant answer to a getheaders request.
func (n *Node) reply(g *wire.MsgGetHeaders) []*wire.BlockHeader {
	start := 0
	for _, h := range g.BlockLocatorHashes {
		if k := n.heightOf(*h); k >= 0 {
			start = k
			break
		}
	}
	end := len(n.Chain) - 1
	if n.Cap > 0 && start+n.Cap < end {
		end = start + n.Cap
	}
	if k := n.heightOf(g.HashStop); k > start && k < end {
		end = k
	}
	var out []*wire.BlockHeader
	for h := start + 1; h <= end; h++ {
		out = append(out, wireHeader(n.Chain[h].Raw))
	}
	return out
}

// Deliver answers the oldest pending getheaders. Reports false if there is nothing to answer.
func (n *Node) Deliver() bool {
	n.mu.Lock()
	if !n.connected || n.muted || len(n.pending) == 0 {
		n.mu.Unlock()
		return false
	}
	g := n.pending[0]
	n.pending = n.pending[1:]
	bad := n.bad
	n.bad = nil
	n.mu.Unlock()
	hs := n.reply(g)
	if bad != nil {
		hs = bad(hs)
	}
	m := wire.NewMsgHeaders()
	m.Headers = hs
	n.lastReply = hs
	n.write(m)
	return true
}

// Announce appends the node's next block and announces it (inv, or headers if asked to).
func (n *Node) Announce(byHeaders bool) bool {
	n.mu.Lock()
	if !n.connected || n.muted || len(n.Future) == 0 {
		n.mu.Unlock()
		return false
	}
	b := n.Future[0]
	n.Future = n.Future[1:]
	n.Chain = append(n.Chain, b)
	n.mu.Unlock()
	if byHeaders {
		m := wire.NewMsgHeaders()
		m.Headers = []*wire.BlockHeader{wireHeader(b.Raw)}
		n.write(m)
	} else {
		m := wire.NewMsgInv()
		h := chainhash.Hash(b.Hash)
		_ = m.AddInvVect(wire.NewInvVect(wire.InvTypeBlock, &h))
		n.write(m)
	}
	return true
}

// Drop closes the node's socket.
func (n *Node) Drop() bool {
	n.mu.Lock()
	defer n.mu.Unlock()
	if !n.connected {
		return false
	}
	n.closedByMe = true
	n.connected = false
	n.closeOutLocked()
	_ = n.conn.Close()
	return true
}

// Mute makes the node stop answering (a stall).
func (n *Node) Mute() bool {
	n.mu.Lock()
	defer n.mu.Unlock()
	if !n.connected || n.muted {
		return false
	}
	n.muted = true
	return true
}

// Snapshot is the node's part of the canonical state key.
func (n *Node) Snapshot() string {
	n.mu.Lock()
	defer n.mu.Unlock()
	if !n.connected {
		// requests that reached a closed connection, and its per-connection flags, are forgotten
		// when the node attaches again: they are not part of the state
		return fmt.Sprintf("n%d{conn=false len=%d future=%d}", n.ID, len(n.Chain)-1, len(n.Future))
	}
	var p []string
	for _, g := range n.pending {
		first := "-"
		if len(g.BlockLocatorHashes) > 0 {
			first = fmt.Sprint(n.heightOf(*g.BlockLocatorHashes[0]))
		}
		p = append(p, fmt.Sprintf("%s..%d", first, n.heightOf(g.HashStop)))
	}
	return fmt.Sprintf("n%d{conn=%v muted=%v len=%d future=%d pending=%v sendheaders=%v}", n.ID, n.connected, n.muted, len(n.Chain)-1, len(n.Future), p, n.sendHeaders)
}

func (n *Node) isConnected() bool {
	n.mu.Lock()
	defer n.mu.Unlock()
	return n.connected
}

func (n *Node) pendingCount() int {
	n.mu.Lock()
	defer n.mu.Unlock()
	if !n.connected || n.muted {
		return 0
	}
	return len(n.pending)
}

// Ask sends a getheaders request to the service (the node as the asking side).
func (n *Node) Ask(locator []chainhash.Hash, stop chainhash.Hash) {
	g := wire.NewMsgGetHeaders()
	g.HashStop = stop
	for i := range locator {
		h := locator[i]
		_ = g.AddBlockLocatorHash(&h)
	}
	n.write(g)
}

// AnswersSince returns the headers messages that arrived after the first k.
func (n *Node) AnswersSince(k int) [][]*wire.BlockHeader {
	n.mu.Lock()
	defer n.mu.Unlock()
	if k > len(n.allHeadersMsgs) {
		return nil
	}
	return append([][]*wire.BlockHeader{}, n.allHeadersMsgs[k:]...)
}

// Answer returns how many headers messages arrived so far and the last one.
func (n *Node) Answer() (int, []*wire.BlockHeader) {
	n.mu.Lock()
	defer n.mu.Unlock()
	return n.headersMsgs, n.lastHeadersMsg
}
