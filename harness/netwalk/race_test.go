package netwalk

import (
	"errors"
	"fmt"
	"net"
	"os"
	"sync"
	"testing"
	"time"

	"github.com/bitcoin-sv/block-headers-service/config"
	"github.com/bitcoin-sv/block-headers-service/internal/chaincfg"
	"github.com/bitcoin-sv/block-headers-service/transports/p2p"
	legacypeer "github.com/bitcoin-sv/block-headers-service/transports/p2p/peer"
	"github.com/bitcoin-sv/block-headers-service/verifh/core"
)

// TestRace is the detector pass of C15: the same rig as C06, free-running (no bubble, no
// cooperative scheduler, real goroutine scheduling), built with -race, with API readers hammering
// the shared state while peers connect, deliver, disconnect and reconnect. It samples schedules;
// it does not enumerate them.
func TestRace(t *testing.T) {
	if os.Getenv("VERIF_RACE") == "" {
		t.Skip("race pass only")
	}
	rounds := 6
	for r := 0; r < rounds; r++ {
		raceRound(t, r)
	}
}

func raceRound(t *testing.T, round int) {
	sc := &Scenario{Engine: "legacy", Blocks: tree(6, 2, 2)}
	sc.Nodes = []NodeSpec{{Chain: seq(1, 6), Reliable: true, Cap: 2}, {Chain: []int{1, 2, 7, 8}, Cap: 1}}
	_, blocks := buildBlocks(sc)
	config.Lookup = func(string) ([]net.IP, error) { return nil, errors.New("no dns") }
	config.Dial = func(string, string, time.Duration) (net.Conn, error) { return nil, errors.New("no dial") }
	config.Checkpoints = []chaincfg.Checkpoint{{Height: 0, Hash: chaincfg.MainNetParams.GenesisHash}}
	rig := core.NewRig(core.RigOpts{})
	defer rig.Close()
	peers := map[*legacypeer.Peer]*legacypeer.SyncState{}
	// production wiring: the same map goes to the network service and to the sync manager
	rig2 := core.OpenRigWithPeers(rig, peers)
	api := rig2.NewAPI(core.APIOpts{})
	vs, err := p2p.VerifNewServer(rig2.Svc, peers, rig2.Cfg.P2P, core.Quiet())
	if err != nil {
		t.Fatal(err)
	}
	_ = vs.Start()
	var nodes []*Node
	for i, ns := range sc.Nodes {
		n := &Node{ID: i, Addr: &net.TCPAddr{IP: net.ParseIP(fmt.Sprintf("10.0.0.%d", i+1)), Port: 8333}, Cap: ns.Cap, Honest: ns.Reliable}
		n.Chain = []block{blocks[0]}
		for _, id := range ns.Chain {
			n.Chain = append(n.Chain, blocks[id])
		}
		nodes = append(nodes, n)
	}
	stop := make(chan struct{})
	var wg sync.WaitGroup
	hdr := adminHeader(rig2)
	for k := 0; k < 3; k++ {
		wg.Add(1)
		go func(k int) {
			defer wg.Done()
			for {
				select {
				case <-stop:
					return
				default:
				}
				switch k {
				case 0:
					api.Do("GET", "/api/v1/network/peer", nil, hdr)
					api.Do("GET", "/api/v1/network/peer/count", nil, hdr)
				case 1:
					api.Do("GET", "/api/v1/chain/tip/longest", nil, hdr)
					api.Do("GET", "/api/v1/chain/tip", nil, hdr)
				default:
					_ = rig2.Svc.Network.GetPeersCount()
					_ = rig2.Svc.Headers.GetTipHeight()
				}
			}
		}(k)
	}
	connect := func(i int) {
		a, b := net.Pipe()
		nodes[i].attach(b)
		vs.DialOut(&tcpConn{Conn: a, remote: nodes[i].Addr, local: &net.TCPAddr{IP: net.ParseIP("10.9.9.9"), Port: 8333}}, nodes[i].Addr)
	}
	connect(0)
	connect(1)
	deadline := time.Now().Add(3 * time.Second)
	for time.Now().Before(deadline) {
		for _, n := range nodes {
			n.Deliver()
		}
		if tip := rig2.Svc.Headers.GetTip(); tip != nil && tip.Height >= 6 {
			break
		}
		time.Sleep(2 * time.Millisecond)
		if round%2 == 1 && time.Until(deadline) < 2900*time.Millisecond && nodes[1].isConnected() {
			nodes[1].Drop()
			time.Sleep(5 * time.Millisecond)
			connect(1)
		}
	}
	for _, n := range nodes {
		n.Drop()
	}
	time.Sleep(20 * time.Millisecond)
	close(stop)
	wg.Wait()
	_ = vs.Shutdown()
}

func adminHeader(r *core.Rig) map[string]string {
	return map[string]string{"Authorization": "Bearer " + r.Cfg.HTTP.AuthToken}
}
