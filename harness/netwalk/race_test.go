package netwalk

import (
	"errors"
	"fmt"
	"net"
	"os"
	"runtime"
	"sync"
	"sync/atomic"
	"testing"
	"time"

	"github.com/bitcoin-sv/block-headers-service/config"
	"github.com/bitcoin-sv/block-headers-service/internal/chaincfg"
	"github.com/bitcoin-sv/block-headers-service/transports/p2p"
	legacypeer "github.com/bitcoin-sv/block-headers-service/transports/p2p/peer"
	"github.com/bitcoin-sv/block-headers-service/verifh/core"
)

// TestRace is the detector pass of C15: the same rig as C06, free-running (no bubble, no
// cooperative scheduler, real goroutine scheduling), built with -race, with API readers hammering
// the shared state while peers connect, deliver, disconnect and reconnect. It samples schedules;
// it does not enumerate them.
func TestRace(t *testing.T) {
	if os.Getenv("VERIF_RACE") == "" {
		t.Skip("race pass only")
	}
	rounds := 6
	for r := 0; r < rounds; r++ {
		raceRound(t, r)
	}
	if n := readFails.Load(); n > 0 {
		fmt.Printf("VERIF-READFAIL-TOTAL %d\n", n)
	}
}

var readFails atomic.Int64

func raceRound(t *testing.T, round int) {
	sc := &Scenario{Engine: "legacy", Blocks: tree(6, 2, 2)}
	sc.Nodes = []NodeSpec{{Chain: seq(1, 6), Reliable: true, Cap: 2}, {Chain: []int{1, 2, 7, 8}, Cap: 1}}
	_, blocks := buildBlocks(sc)
	config.Lookup = func(string) ([]net.IP, error) { return nil, errors.New("no dns") }
	config.Dial = func(string, string, time.Duration) (net.Conn, error) { return nil, errors.New("no dial") }
	config.Checkpoints = []chaincfg.Checkpoint{{Height: 0, Hash: chaincfg.MainNetParams.GenesisHash}}
	// (connection pool as the service has it: readers and the ingesting sync manager use different
	// database connections)
	rig := core.NewRig(core.RigOpts{Pool: true})
	defer rig.Close()
	peers := map[*legacypeer.Peer]*legacypeer.SyncState{}
	// production wiring: the same map goes to the network service and to the sync manager
	rig2 := core.OpenRigWithPeers(rig, peers)
	api := rig2.NewAPI(core.APIOpts{})
	vs, err := p2p.VerifNewServer(rig2.Svc, peers, rig2.Cfg.P2P, core.Quiet())
	if err != nil {
		t.Fatal(err)
	}
	_ = vs.Start()
	var nodes []*Node
	for i, ns := range sc.Nodes {
		n := &Node{ID: i, Addr: &net.TCPAddr{IP: net.ParseIP(fmt.Sprintf("10.0.0.%d", i+1)), Port: 8333}, Cap: ns.Cap, Honest: ns.Reliable}
		n.Chain = []block{blocks[0]}
		for _, id := range ns.Chain {
			n.Chain = append(n.Chain, blocks[id])
		}
		nodes = append(nodes, n)
	}
	stop := make(chan struct{})
	var wg sync.WaitGroup
	hdr := adminHeader(rig2)
	// watchdog: every reader loop and the driver loop tick a counter; if nothing ticks for two
	// minutes (a round takes seconds) the goroutines are dumped and the process ends with a marker the
	// driver classifies: application goroutines waiting for a lock = a deadlock of the code under test
	var progress atomic.Int64
	roundDone := make(chan struct{})
	defer close(roundDone)
	go func() {
		last, lastChange := int64(-1), time.Now()
		for {
			select {
			case <-roundDone:
				return
			case <-time.After(2 * time.Second):
			}
			if p := progress.Load(); p != last {
				last, lastChange = p, time.Now()
			} else if time.Since(lastChange) > 2*time.Minute {
				buf := make([]byte, 16<<20)
				n := runtime.Stack(buf, true)
				fmt.Printf("\nVERIF-STALL round %d: no progress for %v\n%s\nVERIF-STALL-END\n", round, time.Since(lastChange).Round(time.Second), buf[:n])
				os.Exit(3)
			}
		}
	}()
	for k := 0; k < 3; k++ {
		wg.Add(1)
		go func(k int) {
			defer wg.Done()
			for {
				select {
				case <-stop:
					return
				default:
				}
				progress.Add(1)
				switch k {
				case 0:
					api.Do("GET", "/api/v1/network/peer", nil, hdr)
					api.Do("GET", "/api/v1/network/peer/count", nil, hdr)
				case 1:
					// reads of the headers table while headers are being ingested must simply work
					for _, q := range []string{"/api/v1/chain/tip/longest", "/api/v1/chain/tip", "/api/v1/chain/header/byHeight?height=0"} {
						r := api.Do("GET", q, nil, hdr)
						if r.Code != 200 {
							// (asked again at once: only a failure that repeats is counted)
							r = api.Do("GET", q, nil, hdr)
						}
						if r.Code != 200 {
							if readFails.Add(1) <= 3 {
								fmt.Printf("VERIF-READFAIL GET %s answered %d %s\n", q, r.Code, string(r.Body))
							}
						}
					}
				default:
					_ = rig2.Svc.Network.GetPeersCount()
					_ = rig2.Svc.Headers.GetTipHeight()
				}
			}
		}(k)
	}
	// a second source of headers (as the experimental engine's peers are): a side chain of 300
	// headers stored while the sync manager and the readers are at work
	wg.Add(1)
	go func() {
		defer wg.Done()
		prev := core.GenesisRaw().Hash()
		for i := 1; i <= 300; i++ {
			select {
			case <-stop:
				return
			default:
			}
			var m core.Hash32
			m[0], m[1], m[2] = byte(i), byte(i>>8), 0xcc
			raw := core.RawHeader{Version: 1, Prev: prev, Merkle: m, Time: 1600000000 + uint32(i), Bits: core.BitsLight, Nonce: uint32(round)}
			if res := core.SafeAdd(rig2.Svc.Chains, raw.Source()); res.Code() != "stored" && res.Code() != "duplicate" {
				if readFails.Add(1) <= 3 {
					fmt.Printf("VERIF-READFAIL Add of side-chain header %d answered %s: %v\n", i, res.Code(), res.Err)
				}
			}
			prev = raw.Hash()
			progress.Add(1)
		}
	}()
	connect := func(i int) {
		a, b := net.Pipe()
		nodes[i].attach(b)
		vs.DialOut(&tcpConn{Conn: a, remote: nodes[i].Addr, local: &net.TCPAddr{IP: net.ParseIP("10.9.9.9"), Port: 8333}}, nodes[i].Addr)
	}
	connect(0)
	connect(1)
	deadline := time.Now().Add(3 * time.Second)
	for time.Now().Before(deadline) {
		for _, n := range nodes {
			n.Deliver()
		}
		if tip := rig2.Svc.Headers.GetTip(); tip != nil && tip.Height >= 6 {
			break
		}
		time.Sleep(2 * time.Millisecond)
		if round%2 == 1 && time.Until(deadline) < 2900*time.Millisecond && nodes[1].isConnected() {
			nodes[1].Drop()
			time.Sleep(5 * time.Millisecond)
			connect(1)
		}
	}
	for _, n := range nodes {
		n.Drop()
	}
	time.Sleep(20 * time.Millisecond)
	close(stop)
	// (from here on only completion counts as progress)
	wg.Wait()
	progress.Add(1)
	_ = vs.Shutdown()
	progress.Add(1)
}

func adminHeader(r *core.Rig) map[string]string {
	return map[string]string{"Authorization": "Bearer " + r.Cfg.HTTP.AuthToken}
}
