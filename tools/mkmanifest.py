#!/usr/bin/env python3
"""Generates /verif/MANIFEST.json from the table below (single source of truth for the
interface), and validates it against the schema."""
import json
import os
import sys

VERIF = os.path.dirname(os.path.dirname(os.path.abspath(__file__)))

BASE_TRUST = "Go toolchain, SQLite/go-sqlite3 (atomic single-statement transactions), the reference model in harness/core (150 lines, independently written), the bound stated in the evidence file."

CHECKS = {
    "C01": dict(
        engine="storewalk",
        technique="explicit-state search over every arrival order of every subset of every header blueprint (N nodes, |W| difficulty values), each transition a real Chains.Add on a SQLite store, oracle = reference tree model",
        text="Exhaustive within the bound: every history of <=4 (quick) / <=5 (thorough) distinct headers over all tree shapes, orphan patterns, arrival orders and a 2-4 value difficulty alphabet incl. zero/negative targets; every visited store is checked (labels, tip, HTTP cross-read, re-submission, forbidden list) against the model. Histories beyond the bound and random generation are not covered.",
        design="§3 C01",
    ),
}

NOT_YET = "check not built yet in this session (work in progress; see DESIGN.md §7 for the order of work)"

ALL = ["C%02d" % i for i in range(1, 21)]


def main():
    checks = []
    for pid in ALL:
        c = CHECKS.get(pid)
        if not c:
            continue
        checks.append({
            "property_id": pid,
            "quick_cmd": "bin/check %s quick" % pid,
            "thorough_cmd": "bin/check %s thorough" % pid,
            "evidence_file": "/verif/evidence/%s.json" % pid,
            "replay_cmd_template": "bin/check %s --replay {path}" % pid,
            "engine": c["engine"],
            "level_claimed": {"category": c.get("category", "model_checking"), "text": c["text"], "design_ref": c["design"]},
            "level_note": c.get("note", BASE_TRUST),
            "technique": c["technique"],
        })
    na = [{"property_id": p, "reason": NA.get(p, NOT_YET)} for p in ALL if p not in CHECKS]
    m = {
        "version": 1,
        "setup_cmd": "python3 tools/verif.py setup",
        "hooks": {
            "guard": "verif",
            "enable": "go1.26 test -c -tags verif -overlay build/overlay.json ./verifh/<engine> (harness packages and in-package files are injected by the overlay generated from /repo's working tree; nothing is committed to /repo for instrumentation)",
            "baseline_off_cmd": "cd /repo && GOFLAGS=-mod=mod GOPROXY=off go test -p 1 -vet=off -count=1 ./...",
            "source_commits": [],
            "add_only": True,
        },
        "engines": ENGINES,
        "checks": checks,
        "not_applicable": na,
        "notes": "All checks are bounded-exhaustive explorations of the implementation itself (no sampling). known_findings.jsonl lists open findings (suppressed by exact predicate) and fixed ones (suppress nothing).",
    }
    path = os.path.join(VERIF, "MANIFEST.json")
    json.dump(m, open(path, "w"), indent=1)
    try:
        import jsonschema
        jsonschema.validate(m, json.load(open("/root/.vp/MANIFEST.schema.json")))
        print("MANIFEST.json valid:", len(checks), "checks,", len(na), "not_applicable")
    except ImportError:
        print("MANIFEST.json written (jsonschema not available for validation)")


NA = {}

ENGINES = [
    {"name": "storewalk", "path": "harness/storewalk", "serves_properties": ["C01", "C02", "C03", "C04", "C08", "C13"],
     "kind_free_text": "explicit-state DFS over reachable header stores; successor = file copy of the parent's SQLite store + one real Chains.Add"},
]

if __name__ == "__main__":
    main()
