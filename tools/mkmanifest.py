#!/usr/bin/env python3
"""Generates /verif/MANIFEST.json from the table below (single source of truth for the
interface), and validates it against the schema."""
import json
import os
import sys

VERIF = os.path.dirname(os.path.dirname(os.path.abspath(__file__)))

BASE_TRUST = "Every second shard runs with a non-UTC local time zone. Go toolchain, SQLite/go-sqlite3 (atomic single-statement transactions), the reference model in harness/core (150 lines, independently written), the bound stated in the evidence file."

CHECKS = {
    "C01": dict(
        engine="storewalk",
        technique="explicit-state search over every arrival order of every subset of every header blueprint (N nodes, |W| difficulty values), each transition a real Chains.Add on a SQLite store, oracle = reference tree model",
        text="Exhaustive within the bound: every history of <=4 (quick) / <=5 (thorough) distinct headers over all tree shapes, orphan patterns, arrival orders and a 2-4 value difficulty alphabet incl. zero/negative targets; every visited store is checked (labels, tip, HTTP cross-read, re-submission, forbidden list) against the model; plus directed reorganisations of 500 and 623 headers. Histories beyond the bound and random generation are not covered.",
        design="§3 C01",
    ),
    "C02": dict(
        engine="storewalk",
        technique="explicit-state search over reachable header stores (every arrival order of every subset of every blueprint); in every store the complete product (stored roots + unknown) x (heights -1..tip+excess+2, MaxInt32) x excess {0,1,6,MaxInt32} is verified through the service and POST /chain/merkleroot/verify, oracle = reference tree",
        text="Exhaustive within the bound (N<=4 quick, reorg-capable N=5 thorough): every store reachable by ingestion incl. post-reorg stores and stale/orphan headers sharing a height with longest ones; per store every (root, height, excess) verdict, list order, per-item independence (all ordered pairs of verdict-class representatives incl. duplicates) and the aggregate. Lists longer than the full product and other excess values are not covered.",
        design="§3 C02",
    ),
    "C03": dict(
        engine="storewalk",
        technique="explicit-state search over reachable header stores + complete 5x5x5x5x3x3 boundary-value product of header fields; every stored row compared with an independent SHA-256d/80-byte serialiser and big.Int work derivation; column immutability checked across every transition and across restart (database.Init on the same file, and once more with db.prepared_db=true)",
        text="Exhaustive within the bound: every history of <=4/5 headers; every stored header's derived and source fields via SQL dump, service and both JSON endpoints; nothing but header_state changes on any transition; 5625 boundary-valued headers round-trip through Add, SQL and JSON, again after a restart. Field values outside the boundary alphabet are not covered.",
        design="§3 C03",
    ),
    "C04": dict(
        engine="storewalk",
        technique="explicit-state search over reachable header stores; in every store the complete argument product of every read route (all stored hashes + unknown/malformed, all height/count windows, all ordered ancestor pairs, all common-ancestor subsets of size <=3) is served by the production gin engine and compared with answers computed on the reference tree; table digest before/after",
        text="Exhaustive within the bound (N<=4 quick, N=5 equal-work thorough). Other spellings (upper case, leading zeros stripped) of stored hashes must be refused or answered like the hash. Where arrival-time links and hash links disagree (a parent stored after its child) both readings are accepted; where the statement defines no answer (no common ancestor) only C16 judges the status.",
        design="§3 C04, §3a",
    ),
    "C08": dict(
        engine="storewalk",
        technique="explicit-state search over reachable header stores; in every store every (batch size 0..len+2) x (start key: empty, every stored root incl. stale/orphan, unknown) page and every complete multi-page walk is served by GET /chain/merkleroot and compared with the reference longest chain",
        text="Exhaustive within the bound (N<=4 quick, N=5 thorough). Walks interleaved with ingestion are covered by decomposition: a page depends only on (store, key) and every (reachable store, stored root) pair is enumerated, including roots a reorganisation moved off the chain (409 expected); directed reorganisations of 500 and 623 headers are walked completely as well.",
        design="§3 C08",
    ),
    "C13": dict(
        engine="storewalk",
        technique="explicit-state search over reachable header stores; in every store LatestHeaderLocator and every getheaders request (all locators of length 0-2 quick / 0-3 thorough over stored+unknown hashes, every stop) through LocateHeadersGetHeaders and LocateHeaders; plus three long stores (2005, 4100, 2100+stale branch) built by real Adds with locators/stops at the 2000-cap and step-pattern boundaries",
        text="Exhaustive within the bound. The answer returned for one request is re-read after the next request was served (it must not change). An empty locator is accepted as either 'nothing' (the repository's own test pins an error) or the from-height-1 answer. The wire-level path (OnGetHeaders / handleGetHeadersMsg) is exercised by the netwalk engine, not here.",
        design="§3 C13, §3a",
    ),
    "C05": dict(
        engine="crashwalk", category="fault_enumeration",
        technique="exhaustive crash-point and fault enumeration: for every ingestion history (every arrival order of every blueprint within the bound) and every write call on repository.Headers, kill ingestion before that write or make it fail; restart with database.Init on the same file (a second start runs with db.prepared_db=true and must change nothing); structural and acknowledged-header checks; redelivery (same order, and every order for N<=3) compared with the reference model. The fail variant is also driven through the real handleHeadersMsg of both sync engines (in-package driver)",
        text="Exhaustive within the bound: N<=3 all histories x all redelivery orders, N=4 reorganising histories (quick); N=5 reorganising histories (thorough). Each production write is its own SQLite transaction, so the write-call boundaries are exactly the crash states at transaction granularity; torn pages inside a transaction are SQLite's guarantee (trusted).",
        design="§3 C05, §2 E2",
    ),
    "C17": dict(
        engine="crashwalk", category="fault_enumeration",
        technique="exhaustive enumeration: export->import round trip of every final store of every arrival order of every blueprint within the bound, and every single-field corruption (5 replacement values per cell, row deleted/duplicated, column added/removed, header line removed) of exported files of 2, 4, 1203 and 10051 rows (every second corrupted import with p2p.disable_checkpoints=true), each followed by two further starts on the same database; every second export finds a stale, longer intermediate CSV in the temp directory (a killed earlier export)",
        text="Exhaustive within the bound (N=3 quick / N=4 thorough stores; corruption at every row of the short chains and at the batch-boundary rows of the long one; checkpoint at the tip and mid-chain). Gzip-level corruption and Postgres are not covered. A duplicated row at/above the checkpoint yields a consistent longer chain and is not required to be refused.",
        design="§3 C17",
    ),
    "C09": dict(
        engine="apiwalk",
        technique="complete product enumeration on the production gin engine: every route of Engine.Routes() (read at run time) x 16 credential classes (incl. prefixes/suffixes of valid credentials, a token used once and then revoked, SQL-wildcard and case variants of a valid token) x use_auth x debug_profiling x metrics; rejected requests are observed through a statement-recording SQL driver (only the token lookup may run) and table digests; routes outside /api/v1 are matched against the allowed set",
        text="The space is finite and enumerated completely in both tiers (17 API routes x 16 classes x 8 configurations today; new routes are picked up from the routing table). Tokens in the classes come from a real create/revoke history on the SQL token repository; the admin token alternates between the default and one with the length and alphabet of issued tokens.",
        design="§3 C09",
    ),
    "C10": dict(
        engine="apiwalk",
        technique="exhaustive enumeration of operation sequences {create, revoke(each issued|unknown|admin|already revoked), restart} up to depth 5 (quick) / 7 (thorough) with <=3 issued tokens on the SQL token repository; after every step every known token, an unknown one and the admin token are probed on two HTTP routes and on the websocket connect handshake (real centrifuge node, real OnConnecting handler, in-memory transport), oracle = set model",
        text="Exhaustive within the bound. Distinctness of generated tokens is only checked on the tokens observed. Histories rotate through three admin-token shapes (default; length and alphabet of issued tokens; 45 characters); prefixes and suffixed forms of valid credentials are probed as unknown. The websocket probe enters at the centrifuge connect command (the real handler), not at the HTTP upgrade.",
        design="§3 C10",
    ),
    "C12": dict(
        engine="apiwalk",
        technique="breadth-first search over {register(bearer|custom|none), delete, notify with every per-hook outcome in {200,500,transport error,unreadable body}, restart} on two URLs for max_tries 1..3, state = webhooks table + counter model, successor = replay on a fresh SQLite store; call log of a scripted WebhookTargetClient and GET /webhook compared with the model after every step; every outcome sequence of length <=3 additionally through the production HTTP client against a loopback server, and two webhooks of every ordered pair of authorisation kinds served by one production client (both registered / first deleted / first deactivated): each target must receive exactly its own authorisation header (of the header names configured in the run) and no secret under another name",
        text="Exhaustive to depth 6 (quick) / 9 (thorough); the evidence says per max_tries whether the state set closed below the depth bound. Events are delivered one at a time, as the statement says.",
        design="§3 C12",
    ),
    "C16": dict(
        engine="apiwalk",
        technique="complete product enumeration per route of path/query/body alphabets (8 hash forms incl. stale/orphan/genesis/unknown/malformed/10 kB, 11 integer forms, 26 body forms incl. truncated, non-JSON, wrong content type, 5000-element lists) on three store shapes x {auth off, admin token, issued non-admin token}, plus short malformed Authorization headers; oracle: status < 500, exactly one JSON document, 4xx = object with code and message, headers table digest unchanged, engine still answers",
        text="The grammar is finite and enumerated completely (4185 requests per quick run; the thorough tier adds all 192 blueprints of 3 headers x 2 arrival orders and every single-character deletion/substitution of one well-formed body per POST route, 374 000 requests). Requests that match no registered route are answered by the framework (plain 404 / redirect) and are counted but not judged. Byte-level HTTP malformation is net/http's.",
        design="§3 C16",
    ),
    "C14": dict(
        engine="domwalk", category="exploration",
        technique="bounded-exhaustive enumeration: every message shape of the 16 kinds (element counts 0,1,2,limit and limit+1 refused; each scalar over its boundary alphabet) x 11 protocol versions (every version at which an encoding changes and its predecessor, 70013 down to 209; fields a version does not carry must come back zero, a message may be refused only below the version that introduced it) through WriteMessage/ReadMessage (round trip + byte-identical re-encoding); for every seed frame with <=2 elements every single-bit flip (inside the command field: refused unless a known command results), every truncation, 8 length-field values, every payload bit flip / truncation / varint splice at every position with recomputed checksum, splices between every ordered pair of kinds at every cut, wrong magic, bad checksum, unknown and invalid-UTF-8 command; oracle: no panic, bounded reads, allocation <= payload limit + slack, the rejection classes return errors (wrong magic also with 7 length-field values up to 2^32-1); every ordered pair of 40 seed frames is decoded interleaved at field-read granularity; a decoder still reading after 2 million reads is stopped and reported; a decoder that kills the process is caught through a per-case progress file",
        text="Complete within the stated shape and mutation alphabets (about 330 000 decodes per quick run; the thorough tier adds every value of every payload byte, every pair of payload bit flips for payloads up to 96 bytes and splices at every pair of cuts, 8 million decodes); raw random bytes are sampling and are not done. The allocation bound is checked under wire.SetLimits(1 MB).",
        design="§3 C14",
    ),
    "C19": dict(
        engine="domwalk", category="exploration",
        technique="complete enumeration of the 32-bit input domain against an independent big.Int reference: thorough = all 2^32 compact encodings (CompactToBig, CalculateWork) and all 2^32 n (FastLog2Floor), sharded over 16 processes; quick = all 256 exponents x both signs x a 70-value mantissa lattice, all n < 2^20 and all 2^k, 2^k+-1, plus monotonicity on the sorted distinct targets",
        text="Thorough tier is a complete enumeration (proof by exhaustion of the domain); quick tier covers every exponent/sign class and the mantissa boundaries.",
        design="§3 C19",
    ),
    "C20": dict(
        engine="domwalk", category="exploration",
        technique="complete enumeration: every leaf key of config.AppConfig (found by reflection at run time) x {no source, env, file, env+file, env+file swapped} resolved through SetDefaults + cli.LoadFlags(-C file) + Load with all other keys observed; complete product of database sections (4 engines x sqlite path x 2^4 postgres fields x prepared_db x prepared file state) through Validate",
        text="The space is finite and enumerated completely in both tiers (34 keys x 5 source patterns; 768 database sections). Free-form string keys also get a value full of shell/template/YAML special characters from both sources. Keys whose values are interpreted while loading (log level/format, engine, network) use valid alternatives.",
        design="§3 C20",
    ),
    "C06": dict(
        engine="netwalk",
        technique="explicit-state search (BFS with replay) over the P2P environment: each execution is a testing/synctest bubble holding the SQLite-backed services, the real sync engine (legacy p2p.server with its peerHandler, serverPeer listeners, SyncManager.blockHandler, connmgr; or the experimental peer.Peer API) and scripted wire-level nodes over net.Pipe under the fake clock; events {connect, deliver, announce (inv / headers per BIP 130), drop, mute, tick 35/100/200 s}; state key = store rows + the engine's private sync state (sync peer and its timers, per-peer candidate flag and believed height, ban table) + per-node queues + fake time; 1/29 of the executions are run twice and compared; quiescence barrier synctest.Wait after every event; sync-peer selection owned through an import rewrite of crypto/rand; in EVERY reachable state the deterministic fair continuation (reliable node answers, mines and announces new blocks, reconnects, 15 min of clock) must reach the reliable node's best chain; safety oracle on every getheaders sent (locator on the longest chain, descending; stop zero or a checkpoint ahead)",
        text="Exhaustive to the depth bound per scenario (6-7 events quick, 9-10 thorough; state sets of most scenarios close below it) over 74 scenarios: linear catch-up (reply caps inf/2, one or two nodes, checkpoints on/off, lists mid/two/at-tip, initial store genesis/prefix), announcements by one or two nodes racing with the sync, fork overtaking in one reply with initial stores genesis/main/stale-fork, a reliable node that lags when it connects and grows afterwards, the announcement families again with every header older than 24 h (the service never calls itself current), both engines (experimental: one outbound peer, as its design and the statement say). Two classes of the default engine's sync-peer re-selection are open known findings.",
        design="§3 C06, §2 E3",
        note="Trusted: testing/synctest's fake clock and quiescence detection, net.Pipe instead of TCP (one writer goroutine per scripted node because the pipe is unbuffered), the scripted node as the definition of protocol-conformant. Within one event the engine's goroutines run freely; observations are taken only at quiescence.",
    ),
    "C07": dict(
        engine="netwalk",
        technique="explicit-state search (BFS with replay, synctest bubbles, real engines, scripted nodes) over scenarios with one or two misbehaving nodes and one honest node: the offending header (forbidden hash, or a header contradicting a checkpoint) at position 1..3 of the misbehaving node's chain, initial store genesis/prefix, checkpoint lists for both engines, checkpoints on/off; two connections of the misbehaving host with a 60 s ban; two misbehaving nodes with different headers at the checkpoint height; a lighter fork reaching the checkpoint height below a heavy tip; events {connect, deliver, tick 35/200/600 s} in every order (both connection orders, reconnects during and after the ban); containment oracle after every event (forbidden hash never stored or served, its descendants only ORPHAN, sender of a forbidden or checkpoint-contradicting header disconnected - also when that header is STALE, already stored or at the height of a checkpoint passed earlier -, banned host refused exactly while its latest ban runs and admitted afterwards) and the C06 fair continuation in every state",
        text="Exhaustive to depth 6-7 (quick) / 8-9 (thorough) over 100 scenarios. The experimental engine gets the scenario's checkpoint list through the network parameters it is constructed with. Checkpoint advance / unbounded requests after the last checkpoint are judged by the request oracle of C06.",
        design="§3 C07",
        note="Same trusted base as C06.",
    ),
    "C15": dict(
        engine="schedwalk",
        technique="stateless model checking of the implementation under a harness-controlled scheduler: threads (2 concurrent Chains.Add, optionally a reader) run only when the explorer opens their gate; scheduling points = entries of repository.Headers methods; DFS by replay over all schedules (unbounded for 2 threads with global-state memoisation: store digest + per-thread progress and read history; preemption bound 2 with a reader); lock-aware (a thread waiting for a lock held by a parked thread is disabled, found through goroutine wait reasons); invariant (structural validity, reader-observed tips) at every scheduling point, final store = some sequential order (all columns); plus a separate free-running -race pass of the netwalk rig (pooled database connections, a second header source, API readers whose reads are checked, peer churn, a watchdog that dumps goroutines after two minutes without progress and classifies service goroutines waiting for a lock as a deadlock) - a detector, reported as such",
        text="Exhaustive for every blueprint N=3 |W|=2 x every pair of submissions (incl. the same header twice) x third node stored before/absent (3600 scenarios). Interleavings inside one SQL statement are SQLite's. The race pass samples schedules.",
        design="§3 C15, §2 E4",
        note="Trusted: the cooperative scheduler's determinism guard (a replayed prefix that offers fewer choices is a harness error), goroutine wait reasons from runtime.Stack for lock detection, Go's race detector for the free-running pass.",
    ),
    "C11": dict(
        engine="schedwalk",
        technique="stateless model checking under a controlled scheduler inside testing/synctest bubbles: threads = the submitter (one scheduling point per submission) and one delivery goroutine per (event, channel) spawned by the real notification.Notifier (one scheduling point at its start; quiescence = synctest.Wait); channels = the real WebhooksService over the SQL repository with a scripted client, the real websocket channel with a recording publisher that keeps the published slice like a broker does, a recording channel; per-channel behaviour {ok, error, never returns}; DFS by replay over all schedules with global-state memoisation (histories of length 1-2) / preemption bound 1 (length 3); oracle: per channel exactly one event per stored header with all nine fields equal to the stored header (and the published bytes unchanged at the end of the execution), none for duplicate / forbidden / failed submissions (failure injected at the insert, the tip lookup or the state switch), the submitter finishes in every schedule",
        text="Exhaustive: 30 histories x 27 behaviour combinations (all schedules) + 5 longer histories x 27 (bounded). Three 40-header histories with one channel never returning (one schedule each) guard against bounded delivery pools. A real centrifuge client subscription is not part of the check (the publisher seam is the node's Publish).",
        design="§3 C11",
        note="Trusted: testing/synctest quiescence; the scripted sinks. The insert failure is injected by a decorator on repository.Headers for one hash.",
    ),
    "C18": dict(
        engine="netwalk",
        technique="explicit-state search with replay inside testing/synctest bubbles: (a) BFS over {add(inbound|outbound|persistent, host1|host2), done, ban, clock advance ban/2 and ban} on a real peerState through the real handleAddPeerMsg / handleDonePeerMsg / handleBanPeerMsg (in-package driver), state = multiset of admitted (kind, host) + ban buckets, oracle = counting model at the production limits, plus a directed run to the total limit; (b) BFS over environment answers {dial success, dial refusal, disconnect(conn), remove(conn), retry timer} on the real connmgr.ConnManager with scripted GetNewAddress / Dial / OnConnection for targets 1, 2, 3, 8 (thorough 1..8) and two address policies, state key incl. the handler's private pending/conns maps and the implementation's ban table, invariant 'open connections <= target' in every state and the fair continuation (every dial succeeds) must reach exactly the target, plus the directed 26-refusals-of-one-address run",
        text="Exhaustive to depth 8 (admission) / 9 (connection manager) in the quick tier, 10 / 11 thorough; state sets close by deduplication. Directed long outages (30 refusals / 30 retry intervals without any address) run for targets 1, 2, 3, 8 x three address policies. addrmgr's address selection is not explored (GetNewAddress is scripted).",
        design="§3 C18",
        note="Trusted: testing/synctest fake clock; peers built in-package as they look after a version exchange (no sockets).",
    ),
}

NOT_YET = "check not built yet in this session (work in progress; see DESIGN.md §7 for the order of work)"

ALL = ["C%02d" % i for i in range(1, 21)]


def main():
    checks = []
    for pid in ALL:
        c = CHECKS.get(pid)
        if not c:
            continue
        checks.append({
            "property_id": pid,
            "quick_cmd": "bin/check %s quick" % pid,
            "thorough_cmd": "bin/check %s thorough" % pid,
            "evidence_file": "/verif/evidence/%s.json" % pid,
            "replay_cmd_template": "bin/check %s --replay {path}" % pid,
            "engine": c["engine"],
            "level_claimed": {"category": c.get("category", "model_checking"), "text": c["text"], "design_ref": c["design"]},
            "level_note": c.get("note", BASE_TRUST),
            "technique": c["technique"],
        })
    na = [{"property_id": p, "reason": NA.get(p, NOT_YET)} for p in ALL if p not in CHECKS]
    m = {
        "version": 1,
        "setup_cmd": "python3 tools/verif.py setup",
        "hooks": {
            "guard": "verif",
            "enable": "go1.26 test -c -tags verif -overlay build/overlay.json ./verifh/<engine> (harness packages and in-package files are injected by the overlay generated from /repo's working tree; nothing is committed to /repo for instrumentation)",
            "baseline_off_cmd": "cd /repo && GOFLAGS=-mod=mod GOPROXY=off go test -p 1 -vet=off -count=1 ./...",
            "source_commits": [],
            "add_only": True,
        },
        "engines": ENGINES,
        "checks": checks,
        "not_applicable": na,
        "notes": "All checks are bounded-exhaustive explorations of the implementation itself (no sampling). known_findings.jsonl lists open findings (suppressed by exact predicate) and fixed ones (suppress nothing).",
    }
    path = os.path.join(VERIF, "MANIFEST.json")
    json.dump(m, open(path, "w"), indent=1)
    try:
        import jsonschema
        jsonschema.validate(m, json.load(open("/root/.vp/MANIFEST.schema.json")))
        print("MANIFEST.json valid:", len(checks), "checks,", len(na), "not_applicable")
    except ImportError:
        print("MANIFEST.json written (jsonschema not available for validation)")


NA = {}

ENGINES = [
    {"name": "crashwalk", "path": "harness/crashwalk", "serves_properties": ["C05", "C17"],
     "kind_free_text": "crash-point / storage-fault enumeration at the repository write boundary with restart (database.Init) and redelivery; import/export corruption matrix"},
    {"name": "apiwalk", "path": "harness/apiwalk", "serves_properties": ["C09", "C10", "C12", "C16"],
     "kind_free_text": "BFS over operation sequences and complete request products on the production gin engine / websocket connect handler over SQL-backed services"},
    {"name": "domwalk", "path": "harness/domwalk", "serves_properties": ["C14", "C19", "C20"],
     "kind_free_text": "complete enumeration of finite input domains (wire frames and their single-fault mutations, 32-bit arithmetic domain, configuration keys x sources) against independent references"},
    {"name": "netwalk", "path": "harness/netwalk", "serves_properties": ["C06", "C07", "C18"],
     "kind_free_text": "explicit-state search over the P2P environment inside testing/synctest bubbles: real sync engines against scripted wire-level nodes, fake clock, quiescence barrier after every event, fair-closure liveness oracle in every state"},
    {"name": "schedwalk", "path": "harness/schedwalk", "serves_properties": ["C11", "C15"],
     "kind_free_text": "stateless model checking under a controlled scheduler: every interleaving of 2-3 threads at repository-call / notification granularity, replay-based DFS, preemption bounding, state memoisation, lock-aware enabledness"},
    {"name": "storewalk", "path": "harness/storewalk", "serves_properties": ["C01", "C02", "C03", "C04", "C08", "C13"],
     "kind_free_text": "explicit-state DFS over reachable header stores; successor = file copy of the parent's SQLite store + one real Chains.Add"},
]

if __name__ == "__main__":
    main()
