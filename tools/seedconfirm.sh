#!/bin/bash
# tools/seedconfirm.sh <seed dir with patch.diff + demo_test.go> <demo target dir (repo-relative)> <-run regex> [extra go test flags, e.g. -race]
# SEED_BASE=<commit> confirms against the commit the seed was written for (default HEAD).
# Confirms in a scratch worktree of /repo: (1) suite passes with the change, (2) demo fails with it, (3) demo passes without it.
set -u
sd=$1; target=$2; runre=$3; extra=${4:-}
wt=/tmp/confirm_$$
git -C /repo worktree add -q --detach $wt ${SEED_BASE:-HEAD} || exit 2
trap 'git -C /repo worktree remove --force '$wt' >/dev/null 2>&1; rm -rf '$wt EXIT
export GOFLAGS=-mod=mod GOPROXY=off
cd $wt
git apply $sd/patch.diff || { echo "CONFIRM: patch does not apply"; exit 2; }
suite=FAIL
for try in 1 2 3; do
  out=$(go test -p 1 -vet=off -count=1 ./... 2>&1)
  if ! echo "$out" | grep -qE "^(FAIL|---\s*FAIL|panic)"; then suite=PASS; break; fi
  if echo "$out" | grep -q "address already in use"; then sleep 7; continue; fi
  break
done
mkdir -p $target && cp $(ls $sd/demo_test.go $sd/demo_test.go.txt 2>/dev/null | head -1) $target/zz_demo_test.go
with=$(go test $extra -p 1 -vet=off -count=1 -run "$runre" ./$target/ 2>&1 | tail -3 | grep -cE "^(FAIL|---\s*FAIL)")
git apply -R $sd/patch.diff
without=$(go test $extra -p 1 -vet=off -count=1 -run "$runre" ./$target/ 2>&1 | tail -3 | grep -cE "^ok")
echo "CONFIRM $(basename $sd): suite_with_change=$suite demo_fails_with_change=$([ $with -gt 0 ] && echo yes || echo NO) demo_passes_without=$([ $without -gt 0 ] && echo yes || echo NO)"
