#!/bin/bash
# tools/seedcheck.sh [--inplace] <patch.diff> <PROP> [tier]
# Runs the check of <PROP> against a seeded change. Default: the patch is applied to copies of the
# files it touches and those copies are put in the build overlay (VERIF_PATCH), so /repo is not
# written and several seeds can be checked at the same time. --inplace: git apply to /repo, run,
# undo (needed for patches that delete or rename files).
# Evidence and replays of such runs go to build/ (never to evidence/).
set -u
inplace=0
if [ "$1" = "--inplace" ]; then inplace=1; shift; fi
patch=$(readlink -f "$1"); prop=$2; tier=${3:-quick}
filter() { grep -E "^(VIOLATION|KNOWN-FINDING|C[0-9]+ (quick|thorough):)|HARNESS|BUILD FAILED|does not apply|deletes or renames" | cut -c1-260 | head -12; }
if [ $inplace = 1 ]; then
  cd /repo || exit 2
  if ! git diff --quiet; then echo "/repo has local modifications; refusing"; exit 2; fi
  git apply "$patch" || { echo "patch does not apply"; exit 2; }
  trap 'git -C /repo checkout -- . ; git -C /repo clean -fdq' EXIT
  cd /verif && VERIF_SCRATCH_EVIDENCE=1 VERIF_DEADLINE_S=${VERIF_DEADLINE_S:-300} bin/check "$prop" "$tier" 2>&1 | filter
  echo "exit=${PIPESTATUS[0]}"
else
  tag=seed_$(basename "$(dirname "$patch")")_$prop
  cd /verif && VERIF_PATCH="$patch" VERIF_TAG="$tag" VERIF_DEADLINE_S=${VERIF_DEADLINE_S:-300} bin/check "$prop" "$tier" 2>&1 | filter
  echo "exit=${PIPESTATUS[0]}"
  rm -rf /verif/build/*.$tag.test /verif/build/patched.$tag /verif/build/out/*.$tag
fi
