#!/bin/bash
# tools/seedcheck.sh <patch.diff> <PROP> [tier]  - apply a seeded change to /repo, run the check, undo.
# Evidence and replays of such runs go to build/ (never to evidence/).
set -u
patch=$1; prop=$2; tier=${3:-quick}
cd /repo || exit 2
if ! git diff --quiet; then echo "/repo has local modifications; refusing"; exit 2; fi
git apply "$patch" || { echo "patch does not apply"; exit 2; }
trap 'git -C /repo checkout -- . ; git -C /repo clean -fdq' EXIT
cd /verif && VERIF_SCRATCH_EVIDENCE=1 VERIF_DEADLINE_S=${VERIF_DEADLINE_S:-300} bin/check "$prop" "$tier" 2>&1 | grep -E "^(VIOLATION|KNOWN-FINDING|C[0-9]+ (quick|thorough):)|HARNESS|BUILD FAILED" | cut -c1-260 | head -12
echo "exit=${PIPESTATUS[0]}"
