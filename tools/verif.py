#!/usr/bin/env python3
"""Driver for the model-checking harness: overlay generation, build, sharded runs,
report merging, known-finding matching, evidence files.

Usage:
  check <ID> quick|thorough          run a property's check
  check <ID> --replay <file>         re-execute one recorded case
  build <engine>                     build one engine's test binary
  setup                              build everything (warms the Go build cache)
"""
import hashlib
import json
import os
import re
import shutil
import subprocess
import sys
import time

VERIF = os.path.dirname(os.path.dirname(os.path.abspath(__file__)))
REPO = os.environ.get("VERIF_REPO", "/repo")
BUILD = os.path.join(VERIF, "build")
HARNESS = os.path.join(VERIF, "harness")
GO = "go1.26"
NCPU = os.cpu_count() or 4

GOENV = dict(os.environ)
GOENV.update({"GOFLAGS": "-mod=mod", "GOPROXY": "off", "GOTOOLCHAIN": "local", "CGO_ENABLED": "1"})
GOENV.pop("GOSUMDB", None)  # GOSUMDB=off breaks nothing with GOTOOLCHAIN=local, but keep the default

# property -> (engine package, default shard count, quick deadline s, thorough deadline s)
PROPS = {
    "C01": ("storewalk", 16, 600, 3600),
    "C02": ("storewalk", 16, 600, 3600),
    "C03": ("storewalk", 16, 600, 3600),
    "C04": ("storewalk", 16, 600, 3600),
    "C08": ("storewalk", 16, 600, 3600),
    "C13": ("storewalk", 16, 600, 3600),
    "C05": ("crashwalk", 16, 600, 3600),
    "C17": ("crashwalk", 16, 600, 3600),
    "C15": ("schedwalk", 16, 600, 3600),
    "C11": ("schedwalk", 16, 600, 3600),
    "C06": ("netwalk", 16, 900, 3600),
    "C07": ("netwalk", 16, 600, 3600),
    "C18": ("netwalk", 16, 600, 3600),
    "C19": ("domwalk", 16, 300, 7200),
    "C20": ("domwalk", 8, 300, 600),
    "C14": ("domwalk", 16, 600, 3600),
    "C12": ("apiwalk", 12, 600, 3600),
    "C09": ("apiwalk", 8, 600, 3600),
    "C10": ("apiwalk", 8, 600, 3600),
    "C16": ("apiwalk", 16, 600, 3600),
}

# engines whose test binary re-executes exactly one recorded case when VERIF_REPLAY is set
# properties with a second engine contributing to the same check (same VERIF_PROP)
EXTRA_ENGINES = {"C13": [("netwalk", 3)]}

DIRECT_REPLAY = {"C01", "C02", "C03", "C04", "C08", "C13", "C05", "C06", "C07", "C18", "C15", "C11", "C12"}

# packages whose "sync" import is replaced by harness/vsync (locks that block on channels)
SHIM_DIRS = ["notification", "transports/websocket", "transports/http/client"]

LEVEL = "model_checking"
LEVELS = {"C05": "fault_enumeration", "C17": "fault_enumeration", "C19": "exploration", "C20": "exploration", "C14": "exploration"}


def scratch_tag():
    """Suffix that keeps the build products and outputs of a scratch run (mutant, seeded patch,
    experiment) apart from the registered checks' and from each other (VERIF_TAG=<name>)."""
    if os.environ.get("VERIF_TAG"):
        return "." + re.sub(r"[^A-Za-z0-9_]", "", os.environ["VERIF_TAG"])
    if os.environ.get("VERIF_MUTANT") or os.environ.get("VERIF_PATCH"):
        return ".mutant"
    return ""


def log(*a):
    print(*a, file=sys.stderr, flush=True)


def make_overlay(extra_replace=None, tag=""):
    """Map harness sources into the repository's module (virtual files; /repo untouched).

    harness/<pkg>/x.go              -> /repo/verifh/<pkg>/x.go
    harness/_inpkg/<dir>/x.go       -> /repo/<dir>/zz_verif_x.go      (in-package access)
    harness/_rewrite/<name>.json    -> {"file": repo-relative, "subs": [[old, new], ...]}
                                      (working-tree file with textual substitutions)
    extra_replace: {repo-relative path: replacement file path} (mutants / candidate fixes)
    """
    os.makedirs(BUILD, exist_ok=True)
    rep = {}
    for root, dirs, files in os.walk(HARNESS):
        rel = os.path.relpath(root, HARNESS)
        parts = rel.split(os.sep)
        for f in files:
            src = os.path.join(root, f)
            if parts[0] == "_inpkg":
                if not f.endswith(".go"):
                    continue
                dst = os.path.join(REPO, *parts[1:], "zz_verif_" + f)
            elif parts[0] == "_rewrite":
                if not f.endswith(".json"):
                    continue
                spec = json.load(open(src))
                target = os.path.join(REPO, spec["file"])
                # a mutant / candidate fix of the same file is rewritten on top of its text
                base = (extra_replace or {}).get(spec["file"], target)
                text = open(base).read()
                for old, new in spec["subs"]:
                    if old not in text:
                        raise SystemExit("overlay rewrite %s: anchor %r not found in %s" % (f, old, target))
                    text = text.replace(old, new)
                gen = os.path.join(BUILD, "rewrite_" + f[:-5] + tag + ".go")
                open(gen, "w").write(text)
                rep[target] = gen
                continue
            else:
                if not (f.endswith(".go") or f.endswith(".s")):
                    continue
                dst = os.path.join(REPO, "verifh", rel, f)
            rep[dst] = src
    for k, v in (extra_replace or {}).items():
        rep.setdefault(os.path.join(REPO, k), v)
    # sync -> vsync in the notification packages (see harness/vsync): every non-test file there
    # that imports "sync", in the text the build would otherwise use (working tree, mutant, patch)
    for d in SHIM_DIRS:
        names = set(f for f in os.listdir(os.path.join(REPO, d)) if f.endswith(".go")) if os.path.isdir(os.path.join(REPO, d)) else set()
        names |= set(os.path.basename(k) for k in (extra_replace or {}) if os.path.dirname(k) == d and k.endswith(".go"))
        for f in sorted(names):
            if f.endswith("_test.go"):
                continue
            target = os.path.join(REPO, d, f)
            base = rep.get(target, target)
            text = open(base).read()
            new = re.sub(r'(?m)^(\s*)"sync"\s*$', r'\1sync "github.com/bitcoin-sv/block-headers-service/verifh/vsync"', text, count=1)
            if new != text:
                gen = os.path.join(BUILD, "shim%s_%s_%s" % (tag, d.replace("/", "_"), f))
                open(gen, "w").write(new)
                rep[target] = gen
    path = os.path.join(BUILD, "overlay%s.json" % tag)
    json.dump({"Replace": rep}, open(path, "w"), indent=1)
    return path


def build(engine, overlay=None, out=None, race=False):
    overlay = overlay or make_overlay()
    out = out or os.path.join(BUILD, engine + (".race" if race else "") + ".test")
    cmd = [GO, "test", "-c", "-tags", "verif", "-vet=off", "-overlay", overlay, "-o", out]
    if race:
        cmd.append("-race")
    cmd.append("./verifh/" + engine)
    t0 = time.time()
    p = subprocess.run(cmd, cwd=REPO, env=GOENV, stdout=subprocess.PIPE, stderr=subprocess.STDOUT, text=True)
    if p.returncode != 0:
        log(p.stdout)
        raise SystemExit("BUILD FAILED for engine %s (exit %d)" % (engine, p.returncode))
    log("built %s in %.1fs" % (os.path.basename(out), time.time() - t0))
    return out


def run_shards(binary, prop, tier, nshards, deadline, seed, replay=None, extra_env=None, test="TestCheck", outdir_suffix=""):
    outdir = os.path.join(BUILD, "out", prop + outdir_suffix + scratch_tag())
    shutil.rmtree(outdir, ignore_errors=True)
    os.makedirs(outdir)
    procs = []
    if replay:
        nshards = 1
    for i in range(nshards):
        env = dict(os.environ)
        env.update({
            "VERIF_PROP": prop, "VERIF_TIER": tier, "VERIF_SHARD": "%d/%d" % (i, nshards),
            "VERIF_SEED": str(seed), "VERIF_OUT": os.path.join(outdir, "shard%d.json" % i),
            "VERIF_DEADLINE_S": str(deadline), "VERIF_REPO": REPO, "GOMAXPROCS": "2",
        })
        if replay:
            env["VERIF_REPLAY"] = os.path.abspath(replay)
        env.update(extra_env or {})
        logf = open(os.path.join(outdir, "shard%d.log" % i), "w")
        # hard wall limit well above the internal deadline; address-space limit against runaway allocation
        cmd = ["bash", "-c", "ulimit -v 8000000; exec timeout %d %s -test.run '^%s$' -test.timeout 0 -test.count 1" % (deadline + 300, binary, test)]
        procs.append((i, subprocess.Popen(cmd, env=env, stdout=logf, stderr=subprocess.STDOUT, cwd=BUILD), logf))
    reports, errors = [], []
    for i, p, logf in procs:
        rc = p.wait()
        logf.close()
        rp = os.path.join(outdir, "shard%d.json" % i)
        if rc != 0 or not os.path.exists(rp):
            tail = open(os.path.join(outdir, "shard%d.log" % i)).read()
            prog = rp + ".progress"
            fatal = re.search(r"fatal error: [^\n]*|panic: [^\n]*", tail)
            if fatal and "out of memory" in fatal.group(0) and PROPS[prop][0] != "domwalk":
                # an exploring shard runs thousands of executions in one process: running out of
                # memory says something about the process (it stops by itself at a 4 GB heap, see
                # core.Report.Expired), not about the case at hand - only for the codec check, where
                # one case is one decode and bounded allocation is the property, it is a violation
                log("WARNING: shard %d of %s ran out of memory; what it had explored is lost, nothing is concluded from it" % (i, prop))
                reports.append({"exhaustive": False, "caps_hit": ["shard %d ran out of memory (its coverage is not counted)" % i]})
                continue
            if os.path.exists(prog) and fatal:
                # the code under test killed the process (out of memory, unrecoverable panic)
                # while working on the case named in the progress file: that is a violation of the
                # property, not a failure of the harness
                case = open(prog).read().strip()
                m = re.search(r"class=(\S+) kind=(\S+)", case)
                kind = "fatal/%s/%s" % ((m.group(2), m.group(1)) if m else ("?", "?"))
                reports.append({"violations": [{"property": prop, "kind": kind, "what": "the process died (%s) while handling: %s" % (fatal.group(0), case),
                                                "replay": {"engine": "progress-file", "case": case}, "observed": tail[-1500:]}],
                                "violation_counts": {kind: 1}, "exhaustive": False, "caps_hit": ["shard %d died" % i]})
                continue
            errors.append("shard %d exit %d: %s" % (i, rc, tail[-3000:]))
            continue
        reports.append(json.load(open(rp)))
    return reports, errors


def merge(reports):
    m = {"states": 0, "transitions": 0, "executions": 0, "evaluations": 0, "distinct_nontrivial": 0,
         "outcomes": {}, "samples": [], "violations": [], "violation_counts": {}, "caps_hit": [],
         "exhaustive": True, "replays_rechecked": 0, "harness_errors": [], "extra": {}}
    for r in reports:
        for k in ("states", "transitions", "executions", "evaluations", "distinct_nontrivial", "replays_rechecked"):
            m[k] += r.get(k) or 0
        for k, v in (r.get("outcomes") or {}).items():
            m["outcomes"][k] = m["outcomes"].get(k, 0) + v
        for k, v in (r.get("violation_counts") or {}).items():
            m["violation_counts"][k] = m["violation_counts"].get(k, 0) + v
        m["samples"] += r.get("samples") or []
        m["violations"] += r.get("violations") or []
        m["caps_hit"] += r.get("caps_hit") or []
        m["harness_errors"] += r.get("harness_errors") or []
        m["exhaustive"] = m["exhaustive"] and bool(r.get("exhaustive"))
        m["rule"] = r.get("rule", "")
        m["bound"] = r.get("bound", "")
        m["engine"] = r.get("engine", "")
        for k, v in (r.get("extra") or {}).items():
            if isinstance(v, (int, float)) and not isinstance(v, bool) and k.startswith("sum_"):
                m["extra"][k] = m["extra"].get(k, 0) + v
            else:
                m["extra"][k] = v
    m["caps_hit"] = sorted(set(m["caps_hit"]))
    if m["outcomes"].get("recheck-differs"):
        # an execution was not a function of its event list: nothing is concluded from it, but it
        # is said loudly (stderr) and in the evidence file
        log("WARNING: %d re-executed event lists gave a different observation (see extra.recheck_differs in the shard reports)" % m["outcomes"]["recheck-differs"])
        m["caps_hit"].append("determinism recheck differed on %d executions" % m["outcomes"]["recheck-differs"])
    return m


def load_known():
    path = os.path.join(VERIF, "known_findings.jsonl")
    out = []
    if os.path.exists(path):
        for line in open(path):
            line = line.strip()
            if line and not line.startswith("#"):
                out.append(json.loads(line))
    return out


def finish(prop, tier, seed, m, errors, t0, level=LEVEL, assumptions=None, replaying=False):
    """Match violations against known findings, write evidence + replay files, print verdict."""
    known = [k for k in load_known() if k.get("property") == prop and k.get("status") == "open"]
    known_kinds = {k["predicate"]: k for k in known}
    new_viol = {}
    matched = {}
    for kind, cnt in m["violation_counts"].items():
        if kind in known_kinds:
            matched[kind] = cnt
        else:
            new_viol[kind] = cnt
    mutant = bool(os.environ.get("VERIF_MUTANT") or os.environ.get("VERIF_PATCH") or os.environ.get("VERIF_SCRATCH_EVIDENCE"))
    rdir = os.path.join(BUILD, "mutant_replays" + scratch_tag().replace(".mutant", ""), prop) if mutant else os.path.join(VERIF, "replays", prop)
    lines = []
    if mutant:
        shutil.rmtree(rdir, ignore_errors=True)
    if new_viol:
        os.makedirs(rdir, exist_ok=True)
    first_replay = {}
    for v in m["violations"]:
        if v["kind"] in new_viol and v["kind"] not in first_replay:
            blob = json.dumps(v, indent=1, sort_keys=True)
            name = hashlib.sha256(blob.encode()).hexdigest()[:12] + ".json"
            path = os.path.join(rdir, name)
            open(path, "w").write(blob)
            first_replay[v["kind"]] = path
    for kind in sorted(matched):
        lines.append("KNOWN-FINDING: property=%s %s (%d cases this run; %s)" % (prop, known_kinds[kind]["what"], matched[kind], kind))
    for kind in sorted(new_viol):
        lines.append("VIOLATION property=%s replay=%s kind=%s cases=%d" % (prop, first_replay.get(kind, "-"), kind, new_viol[kind]))
    harness_broken = bool(errors) or bool(m["harness_errors"])
    cov = {
        "states": m["states"], "transitions": m["transitions"],
        "traces_validated_against_impl": m["executions"],
        "samples": m["samples"][:8] or [{"note": "no case explored"}],
        "evaluations": m["evaluations"], "distinct_nontrivial": m["distinct_nontrivial"],
        "rule": m.get("rule", ""), "exhaustive": m["exhaustive"] and not harness_broken,
        "bound_completed": m.get("bound", ""), "caps_hit": m["caps_hit"],
        "distinct_outcomes": len(m["outcomes"]), "outcomes": m["outcomes"],
        "known_findings_matched": matched, "new_violation_kinds": new_viol,
        "replays_rechecked": m["replays_rechecked"], "engine": m.get("engine", ""),
        "explanation": "every transition is executed on the real stack (SQLite file from database.Init -> database/sql -> repository -> service); the model is only the oracle",
    }
    cov.update({k: v for k, v in m["extra"].items()})
    ev = {
        "property_id": prop, "tier": tier, "seed": int(seed), "level": level, "coverage": cov,
        "assumptions": assumptions or [], "wall_s": round(time.time() - t0, 2),
        "violations": sum(new_viol.values()),
    }
    if harness_broken:
        ev["coverage"]["harness_errors"] = (errors + m["harness_errors"])[:10]
    if not replaying:
        edir = os.path.join(BUILD, "mutant_evidence" + scratch_tag().replace(".mutant", "")) if mutant else os.path.join(VERIF, "evidence")
        os.makedirs(edir, exist_ok=True)
        json.dump(ev, open(os.path.join(edir, prop + ".json"), "w"), indent=1, sort_keys=True)
    for l in lines:
        print(l)
    print("%s %s: states=%d transitions=%d executions=%d evaluations=%d nontrivial=%d outcomes=%d exhaustive=%s wall=%.1fs" % (
        prop, tier, m["states"], m["transitions"], m["executions"], m["evaluations"], m["distinct_nontrivial"],
        len(m["outcomes"]), cov["exhaustive"], time.time() - t0))
    if harness_broken:
        for e in (errors + m["harness_errors"])[:5]:
            log("HARNESS ERROR:", e[:2000])
        return 2
    return 1 if new_viol else 0


def mutant_overlay(mutant_path):
    """Deliberate property-breaking edit applied through the overlay (never to /repo):
    {"file": repo-relative, "old": text, "new": text} or {"edits": [ {file, old, new}, ... ]}."""
    spec = json.load(open(mutant_path))
    edits = spec.get("edits") or [spec]
    texts = {}
    for e in edits:
        f = e["file"]
        text = texts.get(f) or open(os.path.join(REPO, f)).read()
        if e["old"] not in text:
            raise SystemExit("mutant %s: anchor not found in %s" % (mutant_path, f))
        texts[f] = text.replace(e["old"], e["new"], 1)
    repl = {}
    os.makedirs(BUILD, exist_ok=True)
    for i, (f, text) in enumerate(texts.items()):
        gen = os.path.join(BUILD, "mutant%s_%d_%s" % (scratch_tag(), i, os.path.basename(f)))
        open(gen, "w").write(text)
        repl[f] = gen
    return make_overlay(extra_replace=repl, tag=scratch_tag())


def patch_overlay(patch_path):
    """A seeded change (git diff) applied to copies of the files it touches; the copies replace
    the working-tree files through the overlay, /repo itself is not written."""
    tag = scratch_tag()
    d = os.path.join(BUILD, "patched" + tag)
    shutil.rmtree(d, ignore_errors=True)
    os.makedirs(d)
    files = re.findall(r"^diff --git a/(\S+) b/(\S+)$", open(patch_path).read(), re.M)
    other = [b for a, b in files if not b.endswith(".go")]
    if other:
        # the overlay only reaches what the Go build reads; migrations, config files etc. are read
        # from the working tree at run time
        raise SystemExit("patch %s touches files the build overlay cannot carry (%s): use tools/seedcheck.sh --inplace" % (patch_path, ", ".join(other)))
    for a, b in files:
        src = os.path.join(REPO, a)
        if os.path.exists(src):
            os.makedirs(os.path.dirname(os.path.join(d, a)), exist_ok=True)
            shutil.copy(src, os.path.join(d, a))
    p = subprocess.run(["patch", "-p1", "-s", "-d", d, "-i", os.path.abspath(patch_path)], stdout=subprocess.PIPE, stderr=subprocess.STDOUT, text=True)
    if p.returncode != 0:
        raise SystemExit("patch %s does not apply: %s" % (patch_path, p.stdout))
    repl = {}
    for a, b in files:
        if os.path.exists(os.path.join(d, b)):
            repl[b] = os.path.join(d, b)
        else:
            raise SystemExit("patch %s deletes or renames %s: apply it to /repo instead (tools/seedcheck.sh --inplace)" % (patch_path, a))
    return make_overlay(extra_replace=repl, tag=tag)


def race_pass(prop, tier, overlay=None, tag=""):
    """Detector pass (not an enumeration): the netwalk rig built with -race, free-running, with
    API readers hammering shared state during peer churn. Every race report becomes a violation
    whose kind names the two conflicting application functions."""
    binary = build("netwalk", overlay=overlay, race=True, out=os.path.join(BUILD, "netwalk.race%s.test" % tag))
    env = dict(os.environ)
    env.update({"VERIF_RACE": "1", "GORACE": "halt_on_error=0", "VERIF_REPO": REPO})
    p = subprocess.run(["timeout", "600", binary, "-test.run", "^TestRace$", "-test.count", "1", "-test.timeout", "0"],
                       env=env, cwd=BUILD, stdout=subprocess.PIPE, stderr=subprocess.STDOUT, text=True)
    out = p.stdout
    blocks = [b for b in out.split("==================") if "DATA RACE" in b]
    viol, counts = [], {}
    mod = "github.com/bitcoin-sv/block-headers-service/"
    for b in blocks:
        parts = re.split(r"\nPrevious ", b, maxsplit=1)
        if len(parts) == 2:
            parts[1] = re.split(r"\nGoroutine ", parts[1], maxsplit=1)[0]
        fns = []
        for st in parts[:2]:
            fn = "?"
            for line in st.splitlines():
                line = line.strip()
                if line.startswith(mod) and "/verifh/" not in line:
                    fn = line[len(mod):]
                    if fn.endswith("()"):
                        fn = fn[:-2]
                    break
            fns.append(fn)
        fns = (fns + ["?", "?"])[:2]
        kind = "race/%s~%s" % tuple(sorted(fns))
        if any("service.(*NetworkService)" in st for st in parts[:2]):
            # one defect, many access pairs: the network service reads the peers map and the peers
            # in it from HTTP goroutines while the P2P side creates, registers and removes them
            kind = "race/peers_map(SyncManager~NetworkService)"
        counts[kind] = counts.get(kind, 0) + 1
        if counts[kind] == 1:
            viol.append({"property": prop, "kind": kind, "what": "the race detector reported a data race between %s and %s (free-running pass)" % tuple((fns + ["?", "?"])[:2]),
                         "replay": {"engine": "race-pass", "cmd": "VERIF_RACE=1 build/netwalk.race.test -test.run ^TestRace$"}, "observed": b[:3000]})
    fatal = re.search(r"fatal error: concurrent map[^\n]*", out)
    if fatal:
        # the runtime's own detector aborted the process: the crash the race leads to in production
        kind = "race/fatal_concurrent_map_access"
        if "NetworkService" in out[out.index(fatal.group(0)):][:6000]:
            kind = "race/peers_map(SyncManager~NetworkService)"
        counts[kind] = counts.get(kind, 0) + 1
        viol.append({"property": prop, "kind": kind, "what": "the process aborted with %r in the free-running pass" % fatal.group(0),
                     "replay": {"engine": "race-pass"}, "observed": out[out.index(fatal.group(0)):][:3000]})
    rf = re.search(r"VERIF-READFAIL-TOTAL (\d+)", out)
    if rf:
        kind = "concurrent_read_failed"
        counts[kind] = counts.get(kind, 0) + int(rf.group(1))
        viol.append({"property": prop, "kind": kind, "what": "API reads of stored headers, or submissions, failed while headers were being ingested (free-running pass, pooled connections)",
                     "replay": {"engine": "race-pass"}, "observed": "\n".join(re.findall(r"VERIF-READFAIL [^\n]*", out))[:2000]})
    stall = re.search(r"VERIF-STALL round (\d+)[^\n]*\n(.*?)VERIF-STALL-END", out, re.S)
    if stall:
        # the watchdog of the pass dumped the goroutines after two minutes without progress: if
        # goroutines of the service wait for a lock it is a deadlock of the code under test
        mod = "github.com/bitcoin-sv/block-headers-service/"
        waiting = []
        for g in stall.group(2).split("\n\n"):
            head = g.split("\n", 1)[0]
            if re.search(r"\[(sync\.(RW)?Mutex\.(R)?Lock|semacquire)", head) and mod in g and "verifh/" not in g.split("\n")[2 if len(g.split("\n")) > 2 else 0]:
                fn = [l for l in g.split("\n") if l.startswith(mod) and "verifh/" not in l]
                waiting.append(fn[0].split("(")[0].replace(mod, "") if fn else "?")
        if waiting:
            kind = "deadlock/lock_wait(" + ",".join(sorted(set(waiting))[:3]) + ")"
            counts[kind] = counts.get(kind, 0) + 1
            viol.append({"property": prop, "kind": kind, "what": "the free-running pass made no progress for two minutes; goroutines of the service are waiting for a lock",
                         "replay": {"engine": "race-pass"}, "observed": stall.group(2)[:6000]})
    ok = bool(fatal) or bool(stall and viol) or (("PASS" in out or "FAIL" in out) and p.returncode in (0, 1, 66))
    rep = {"violations": viol, "violation_counts": counts, "exhaustive": True, "executions": 6,
           "extra": {"race_pass": {"rounds": 6, "reports": len(blocks), "distinct": len(counts), "note": "detector pass: samples schedules, does not enumerate them"}}}
    errs = [] if ok else ["race pass did not run to completion: exit %d: %s" % (p.returncode, out[-1500:])]
    return rep, errs


def check(prop, tier, replay=None):
    t0 = time.time()
    engine, nshards, dq, dt = PROPS[prop]
    seed = int(os.environ.get("VERIF_SEED", "0") or 0)
    deadline = dq if tier == "quick" else dt
    if os.environ.get("VERIF_DEADLINE_S"):
        deadline = float(os.environ["VERIF_DEADLINE_S"])
    overlay, tag = None, scratch_tag()
    if os.environ.get("VERIF_MUTANT"):
        overlay = mutant_overlay(os.environ["VERIF_MUTANT"])
    elif os.environ.get("VERIF_PATCH"):
        overlay = patch_overlay(os.environ["VERIF_PATCH"])
    elif tag:
        overlay = make_overlay(tag=tag)
    if tag:
        binary = build(engine, overlay=overlay, out=os.path.join(BUILD, engine + tag + ".test"))
    else:
        binary = build(engine)
    extra = None
    if replay and prop not in DIRECT_REPLAY:
        # cheap engines: re-run the whole check, keeping only violations of the recorded case
        extra = {"VERIF_REPLAY_MATCH": os.path.abspath(replay)}
        reports, errors = run_shards(binary, prop, tier, nshards, deadline, seed, extra_env=extra)
    else:
        reports, errors = run_shards(binary, prop, tier, nshards, deadline, seed, replay=replay)
    for xengine, xshards in EXTRA_ENGINES.get(prop, []):
        if replay:
            break
        xbin = build(xengine, overlay=overlay, out=os.path.join(BUILD, xengine + tag + ".test") if tag else None)
        xr, xe = run_shards(xbin, prop, tier, xshards, deadline, seed, outdir_suffix="." + xengine)
        reports += xr
        errors += xe
    if prop == "C15" and not replay:
        r, e = race_pass(prop, tier, overlay, tag)
        reports.append(r)
        errors += e
    m = merge(reports)
    return finish(prop, tier, seed, m, errors, t0, level=LEVELS.get(prop, LEVEL), replaying=bool(replay))


def main(argv):
    if len(argv) < 2:
        print(__doc__)
        return 2
    cmd = argv[1]
    if cmd == "setup":
        ov = make_overlay()
        for e in sorted(set(v[0] for v in PROPS.values())):
            build(e, ov)
        build("netwalk", ov, race=True)
        return 0
    if cmd == "build":
        build(argv[2])
        return 0
    if cmd == "check":
        prop = argv[2]
        if argv[3] == "--replay":
            return check(prop, os.environ.get("VERIF_TIER", "quick"), replay=argv[4])
        return check(prop, argv[3])
    print(__doc__)
    return 2


if __name__ == "__main__":
    sys.exit(main(sys.argv))
